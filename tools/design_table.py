#!/usr/bin/env python3
# regenerate DESIGN.md section 12.6 from seeded/*/meta.json
import json,os
rows=[]
for d in sorted(os.listdir('/verif/seeded')):
    mp=f'/verif/seeded/{d}/meta.json'
    if not os.path.exists(mp): continue
    m=json.load(open(mp)); res=m['run_against_checks']['result']
    first="missed, then caught" if res.startswith("MISSED") or res.startswith("caught (SEARCH-MISMATCH) once") else ("caught (by C13)" if res.startswith("not a C18 violation") else None) or ('not caught' if res.startswith('NOT CAUGHT') else 'caught')
    rows.append((m.get('round',1),d,m['property'],first,res))
out="\n### 12.6 Independently written property-breaking changes (`/verif/seeded/`)\n\nWritten by fresh sub-agents that saw one property's text and a scratch worktree only (rounds 2\nand 3 also got a one-paragraph hint which mechanisms to prefer, for variety); each was confirmed\nby me in the scratch worktree (existing suite: 476 passed, 0 failed with the patch; the\ndemonstration fails with it and passes without), then applied to `/repo`, checked with the quick\ntier, and reverted (`tools/seeded.sh`; `tools/seeded_all.sh` re-runs all of them and writes\n`seeded/RESULTS.txt`).\n\n| round | change | property | first run | what it took |\n|---|---|---|---|---|\n"
for r,d,p,first,res in sorted(rows):
    out+=f"| {r} | `{d}` | {p} | {first} | {res.replace('|','/')} |\n"
n=len(rows); c=sum(1 for x in rows if x[3]=='caught'); nc=sum(1 for x in rows if x[3]=='not caught')
out+=f"\n{c} of {n} were caught by the checks as they stood when the change arrived. {n-c-nc} exposed a blind\nspot (yield granularity; an unasserted output line under faults; snapshot and rule-revision\nhistories; path spellings; files lost at discovery; rule shapes; re-layout edits) that was closed by\nwidening the simulated space or the oracle — never by special-casing the change — after which they\nare caught and the unchanged tree stays clean. {nc} are not caught: one deliberately (12.7), one because it stopped breaking its property when the\ndefect it had copied was repaired (12.3 row 8), three of round 10 that are outside what their\nproperty states (the order of `sg test` report lines; which of two equal captures a repeated\nvariable reports; one file named twice on a command line), one of round 11 that needs the\nversion restarts of 12.7, and one of round 12 that needs more than 512 items in flight in worlds of\nat most 14 files (12.9) — the reasons are in their rows.\n"
s=open('/verif/DESIGN.md').read()
a=s.index('\n### 12.6'); 
b=s.find('\n### 12.7')
s=s[:a]+out+(s[b:] if b>=0 else '')
open('/verif/DESIGN.md','w').write(s)
print(c,n,nc)
