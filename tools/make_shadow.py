#!/usr/bin/env python3
"""Mirror /repo's workspace crates into a shadow tree in which `std::sync::` is replaced by
`agsim_sync::` (see /verif/syncshim), so that every lock acquisition and atomic operation in
ast-grep's own crates is a scheduling point of the simulator. Files are rewritten only when
their content changes, so cargo's incremental build keeps working.

usage: make_shadow.py <shadow_dir>
"""
import os, re, sys, shutil

REPO = "/repo"
SHADOW = sys.argv[1]
# --plain: mirror without the std::sync rewrite (fallback when a tree uses a part of
# std::sync's API the shim does not mirror, so that such a tree is still checked)
PLAIN = "--plain" in sys.argv[2:]
# crates whose sources get the rewrite (ast-grep's own code that runs under the scheduler)
REWRITE = {"core", "config", "cli", "lsp", "dynamic", "language"}
SKIP_FILES = {"verif.rs"}  # the hook modules themselves must keep using std's primitives
PAT = re.compile(r"(?<![A-Za-z0-9_])(?:::)?(?:std|core)::sync::")

def transform(crate, rel, data):
    if not PLAIN and crate in REWRITE and rel.endswith(".rs") and os.path.basename(rel) not in SKIP_FILES and "/src/" in "/" + rel:
        try:
            text = data.decode("utf-8")
        except UnicodeDecodeError:
            return data
        text2 = PAT.sub("agsim_sync::", text)
        return text2.encode("utf-8")
    if crate in REWRITE and rel == "Cargo.toml":
        text = data.decode("utf-8")
        if "agsim-sync" not in text:
            text = re.sub(r"(?m)^\[dependencies\]\s*$", '[dependencies]\nagsim-sync = { path = "/verif/syncshim" }', text, count=1)
        return text.encode("utf-8")
    return data

def write_if_changed(path, data, mode=None):
    try:
        with open(path, "rb") as f:
            if f.read() == data:
                return False
    except FileNotFoundError:
        pass
    os.makedirs(os.path.dirname(path), exist_ok=True)
    with open(path, "wb") as f:
        f.write(data)
    if mode is not None:
        os.chmod(path, mode)
    return True

def main():
    wanted = set()
    changed = 0
    # workspace root manifest: only crates/* are members in the shadow
    root = open(os.path.join(REPO, "Cargo.toml"), "rb").read().decode("utf-8")
    root = re.sub(r'members\s*=\s*\[[^\]]*\]', 'members = ["crates/*"]', root, count=1)
    root = re.sub(r'default-members\s*=\s*\[[^\]]*\]\n', '', root, count=1)
    changed += write_if_changed(os.path.join(SHADOW, "Cargo.toml"), root.encode("utf-8"))
    wanted.add("Cargo.toml")
    for extra in ("README.md", "LICENSE"):
        p = os.path.join(REPO, extra)
        if os.path.isfile(p):
            changed += write_if_changed(os.path.join(SHADOW, extra), open(p, "rb").read())
            wanted.add(extra)
    crates_dir = os.path.join(REPO, "crates")
    for crate in sorted(os.listdir(crates_dir)):
        cdir = os.path.join(crates_dir, crate)
        if not os.path.isdir(cdir):
            continue
        for dirpath, dirnames, filenames in os.walk(cdir):
            dirnames[:] = [d for d in dirnames if d not in ("target", "node_modules", ".git")]
            for fn in filenames:
                src = os.path.join(dirpath, fn)
                if os.path.islink(src) or not os.path.isfile(src):
                    continue
                rel_crate = os.path.relpath(src, cdir)
                rel = os.path.join("crates", crate, rel_crate)
                data = open(src, "rb").read()
                data = transform(crate, rel_crate, data)
                changed += write_if_changed(os.path.join(SHADOW, rel), data, os.stat(src).st_mode & 0o777)
                wanted.add(rel)
    # remove files that no longer exist in /repo
    for dirpath, dirnames, filenames in os.walk(SHADOW, topdown=False):
        for fn in filenames:
            p = os.path.join(dirpath, fn)
            rel = os.path.relpath(p, SHADOW)
            if rel not in wanted and not rel.startswith("target") and rel != "Cargo.lock":
                os.remove(p)
                changed += 1
        if dirpath != SHADOW and not os.listdir(dirpath):
            os.rmdir(dirpath)
    print(f"shadow: {len(wanted)} files mirrored, {changed} changed")

main()
