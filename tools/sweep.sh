#!/bin/bash
# false-alarm sweep: every check, quick tier, N seeds; prints one line per (check, seed)
N=${1:-10}
cd /verif
for p in C10 C13 C17 C18 C09; do
  B=${2:-101}; for sd in $(seq $B $((B+N-1))); do
    out=$(./check $p --tier quick --no-evidence --seed=$sd 2>&1); rc=$?
    echo "$p seed=$sd exit=$rc $(echo "$out" | grep -E '^VIOLATION|^HARNESS' | head -2 | cut -c1-200)"
  done
done
