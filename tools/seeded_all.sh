#!/bin/bash
# run every seeded change against its property's quick check; summary in seeded/RESULTS.txt
cd /verif
OUT=/verif/seeded/RESULTS.txt; : > $OUT.tmp
for d in seeded/*/; do
  n=$(basename $d); p=${n%%-*}
  [ -f $d/patch.diff ] || continue
  # the check a change is run against is named in its meta.json (usually its own property's)
  q=$(python3 -c "import json,sys; print(json.load(open('$d/meta.json'))['run_against_checks']['command'].split()[1])" 2>/dev/null)
  case "$q" in C09|C10|C13|C17|C18) p=$q;; esac
  # a change whose patch no longer applies to the current /repo has a hand-rebased twin (see its meta.json)
  pf=/verif/$d/patch.diff; [ -f /verif/$d/patch.rebased.diff ] && pf=/verif/$d/patch.rebased.diff
  r=$(tools/seeded.sh $p $pf 2>&1)
  rc=$(echo "$r" | grep -o 'exit=[0-9]*' | head -1)
  cls=$(echo "$r" | grep -o 'class=[A-Z-]*' | sort -u | tr '\n' ' ')
  echo "$n $rc $cls" | tee -a $OUT.tmp
done
mv $OUT.tmp $OUT
