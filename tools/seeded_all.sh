#!/bin/bash
# run every seeded change against its property's quick check; summary in seeded/RESULTS.txt
cd /verif
OUT=/verif/seeded/RESULTS.txt; : > $OUT.tmp
for d in seeded/*/; do
  n=$(basename $d); p=${n%%-*}
  [ -f $d/patch.diff ] || continue
  r=$(tools/seeded.sh $p /verif/$d/patch.diff 2>&1)
  rc=$(echo "$r" | grep -o 'exit=[0-9]*' | head -1)
  cls=$(echo "$r" | grep -o 'class=[A-Z-]*' | sort -u | tr '\n' ' ')
  echo "$n $rc $cls" | tee -a $OUT.tmp
done
mv $OUT.tmp $OUT
