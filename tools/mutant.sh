#!/bin/bash
# usage: mutant.sh <ID> <name> <file> <python-expr old> <new>   (reads old/new from env OLD/NEW)
# applies a textual mutation to /repo, runs the quick check, reverts.
ID=$1; NAME=$2; FILE=$3
cd /repo || exit 2
python3 - "$FILE" <<'PY' || { echo "MUTANT $NAME: patch failed"; git -C /repo checkout -- .; exit 2; }
import os,sys
p=sys.argv[1]; s=open(p).read()
old=os.environ['OLD']; new=os.environ['NEW']
assert s.count(old)==1, (p, s.count(old))
open(p,'w').write(s.replace(old,new))
PY
cd /verif
export AGSIM_TARGET_DIR=/verif/target-mut
OUT=$(./check $ID --tier quick --no-evidence ${EXTRA:-} 2>&1); RC=$?
echo "MUTANT $NAME: exit=$RC $(echo "$OUT" | grep -E '^VIOLATION|^HARNESS' | head -3 | cut -c1-400)"
git -C /repo checkout -- .
