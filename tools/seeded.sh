#!/bin/bash
# usage: seeded.sh <ID> <patch.diff> [extra check args]
# applies an independently written property-breaking patch to /repo, runs the quick check
# (in the mutation build directory), reverts /repo.
ID=$1; PATCH=$2; shift 2
cd /repo || exit 2
if ! git apply --check "$PATCH" 2>/dev/null; then echo "SEEDED $PATCH: patch does not apply"; exit 2; fi
git apply "$PATCH"
cd /verif
export AGSIM_TARGET_DIR=/verif/target-mut
OUT=$(./check $ID --tier quick --no-evidence "$@" 2>&1); RC=$?
echo "SEEDED $ID $(basename $(dirname $PATCH)): exit=$RC"
echo "$OUT" | grep -E '^VIOLATION|^HARNESS|^KNOWN' | head -4 | cut -c1-500
git -C /repo checkout -- .
git -C /repo status --short | head -3
