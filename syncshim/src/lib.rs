//! Drop-in stand-ins for `std::sync::{Mutex, RwLock, OnceLock, LazyLock}` and the integer /
//! bool atomics. The check scripts build ast-grep from a *shadow copy* of /repo's sources in
//! which `std::sync::` is textually replaced by `agsim_sync::`, so that every lock
//! acquisition and every atomic operation in ast-grep's own crates — including ones a future
//! change adds — is a scheduling point of the baton scheduler. Everything else of
//! `std::sync` is re-exported unchanged. Without installed hooks (and on threads the
//! simulator does not know) all types behave exactly like std's.

pub use std::sync::*;

use std::sync::Arc as StdArc;
use std::sync::RwLock as StdRwLock;

pub trait SyncHooks: Send + Sync {
  /// Is the calling thread under the simulator's control right now?
  fn participating(&self) -> bool;
  /// A scheduling decision point in front of a synchronisation operation.
  fn yield_point(&self, kind: &str);
  /// The operation cannot proceed (lock held by a parked thread): block until some other
  /// simulated thread made progress, then the caller retries.
  fn block_retry(&self, kind: &str);
}

static HOOKS: StdRwLock<Option<StdArc<dyn SyncHooks>>> = StdRwLock::new(None);

pub fn install_hooks(h: Option<StdArc<dyn SyncHooks>>) {
  *HOOKS.write().unwrap() = h;
}

fn hooks() -> Option<StdArc<dyn SyncHooks>> {
  let h = HOOKS.read().ok()?.clone()?;
  if h.participating() {
    Some(h)
  } else {
    None
  }
}

#[inline]
fn yield_hook(kind: &str) {
  if let Some(h) = hooks() {
    h.yield_point(kind);
  }
}

// ---------------------------------------------------------------------------------------

#[derive(Default)]
pub struct Mutex<T: ?Sized> {
  inner: std::sync::Mutex<T>,
}

impl<T> Mutex<T> {
  pub const fn new(t: T) -> Self {
    Mutex { inner: std::sync::Mutex::new(t) }
  }
  pub fn into_inner(self) -> LockResult<T> {
    self.inner.into_inner()
  }
}

impl<T: ?Sized> Mutex<T> {
  pub fn lock(&self) -> LockResult<MutexGuard<'_, T>> {
    let Some(h) = hooks() else {
      return self.inner.lock();
    };
    loop {
      h.yield_point("lock");
      match self.inner.try_lock() {
        Ok(g) => {
          // a holder can be pre-empted inside its critical section: others then find the lock taken
          h.yield_point("locked");
          return Ok(g);
        }
        Err(TryLockError::Poisoned(p)) => return Err(p),
        Err(TryLockError::WouldBlock) => h.block_retry("lock"),
      }
    }
  }
  pub fn try_lock(&self) -> TryLockResult<MutexGuard<'_, T>> {
    yield_hook("try_lock");
    let r = self.inner.try_lock();
    if r.is_ok() {
      yield_hook("locked");
    }
    r
  }
  pub fn is_poisoned(&self) -> bool {
    self.inner.is_poisoned()
  }
  pub fn clear_poison(&self) {
    self.inner.clear_poison()
  }
  pub fn get_mut(&mut self) -> LockResult<&mut T> {
    self.inner.get_mut()
  }
}

impl<T> From<T> for Mutex<T> {
  fn from(t: T) -> Self {
    Mutex::new(t)
  }
}

impl<T: ?Sized + std::fmt::Debug> std::fmt::Debug for Mutex<T> {
  fn fmt(&self, f: &mut std::fmt::Formatter<'_>) -> std::fmt::Result {
    self.inner.fmt(f)
  }
}

// ---------------------------------------------------------------------------------------

#[derive(Default)]
pub struct RwLock<T: ?Sized> {
  inner: std::sync::RwLock<T>,
}

impl<T> RwLock<T> {
  pub const fn new(t: T) -> Self {
    RwLock { inner: std::sync::RwLock::new(t) }
  }
  pub fn into_inner(self) -> LockResult<T> {
    self.inner.into_inner()
  }
}

impl<T: ?Sized> RwLock<T> {
  pub fn read(&self) -> LockResult<RwLockReadGuard<'_, T>> {
    let Some(h) = hooks() else {
      return self.inner.read();
    };
    loop {
      h.yield_point("read-lock");
      match self.inner.try_read() {
        Ok(g) => return Ok(g),
        Err(TryLockError::Poisoned(p)) => return Err(p),
        Err(TryLockError::WouldBlock) => h.block_retry("read-lock"),
      }
    }
  }
  pub fn write(&self) -> LockResult<RwLockWriteGuard<'_, T>> {
    let Some(h) = hooks() else {
      return self.inner.write();
    };
    loop {
      h.yield_point("write-lock");
      match self.inner.try_write() {
        Ok(g) => {
          h.yield_point("write-locked");
          return Ok(g);
        }
        Err(TryLockError::Poisoned(p)) => return Err(p),
        Err(TryLockError::WouldBlock) => h.block_retry("write-lock"),
      }
    }
  }
  pub fn try_read(&self) -> TryLockResult<RwLockReadGuard<'_, T>> {
    yield_hook("try_read");
    self.inner.try_read()
  }
  pub fn try_write(&self) -> TryLockResult<RwLockWriteGuard<'_, T>> {
    yield_hook("try_write");
    self.inner.try_write()
  }
  pub fn is_poisoned(&self) -> bool {
    self.inner.is_poisoned()
  }
  pub fn clear_poison(&self) {
    self.inner.clear_poison()
  }
  pub fn get_mut(&mut self) -> LockResult<&mut T> {
    self.inner.get_mut()
  }
}

impl<T> From<T> for RwLock<T> {
  fn from(t: T) -> Self {
    RwLock::new(t)
  }
}

impl<T: ?Sized + std::fmt::Debug> std::fmt::Debug for RwLock<T> {
  fn fmt(&self, f: &mut std::fmt::Formatter<'_>) -> std::fmt::Result {
    self.inner.fmt(f)
  }
}

// ---------------------------------------------------------------------------------------

/// `OnceLock` whose initialisation never blocks the OS thread while another simulated thread
/// is parked inside the initialiser.
pub struct OnceLock<T> {
  inner: std::sync::OnceLock<T>,
  initializing: std::sync::atomic::AtomicBool,
}

impl<T> Default for OnceLock<T> {
  fn default() -> Self {
    Self::new()
  }
}

impl<T> OnceLock<T> {
  pub const fn new() -> Self {
    OnceLock { inner: std::sync::OnceLock::new(), initializing: std::sync::atomic::AtomicBool::new(false) }
  }
  pub fn get(&self) -> Option<&T> {
    yield_hook("once-get");
    self.inner.get()
  }
  pub fn get_mut(&mut self) -> Option<&mut T> {
    self.inner.get_mut()
  }
  pub fn set(&self, value: T) -> Result<(), T> {
    yield_hook("once-set");
    self.inner.set(value)
  }
  pub fn get_or_init<F: FnOnce() -> T>(&self, f: F) -> &T {
    let Some(h) = hooks() else {
      return self.inner.get_or_init(f);
    };
    let mut f = Some(f);
    loop {
      h.yield_point("once-init");
      if let Some(v) = self.inner.get() {
        return v;
      }
      if !self.initializing.swap(true, std::sync::atomic::Ordering::SeqCst) {
        let v = (f.take().unwrap())();
        let _ = self.inner.set(v);
        self.initializing.store(false, std::sync::atomic::Ordering::SeqCst);
        return self.inner.get().expect("just set");
      }
      h.block_retry("once-init");
    }
  }
  pub fn into_inner(self) -> Option<T> {
    self.inner.into_inner()
  }
  pub fn take(&mut self) -> Option<T> {
    self.inner.take()
  }
}

impl<T: Clone> Clone for OnceLock<T> {
  fn clone(&self) -> Self {
    OnceLock { inner: self.inner.clone(), initializing: std::sync::atomic::AtomicBool::new(false) }
  }
}

impl<T: PartialEq> PartialEq for OnceLock<T> {
  fn eq(&self, other: &Self) -> bool {
    self.inner == other.inner
  }
}

impl<T: Eq> Eq for OnceLock<T> {}

impl<T> From<T> for OnceLock<T> {
  fn from(value: T) -> Self {
    OnceLock { inner: std::sync::OnceLock::from(value), initializing: std::sync::atomic::AtomicBool::new(false) }
  }
}

impl<T: std::fmt::Debug> std::fmt::Debug for OnceLock<T> {
  fn fmt(&self, f: &mut std::fmt::Formatter<'_>) -> std::fmt::Result {
    self.inner.fmt(f)
  }
}

pub struct LazyLock<T, F = fn() -> T> {
  cell: OnceLock<T>,
  init: std::sync::Mutex<Option<F>>,
}

impl<T, F: FnOnce() -> T> LazyLock<T, F> {
  pub const fn new(f: F) -> Self {
    LazyLock { cell: OnceLock::new(), init: std::sync::Mutex::new(Some(f)) }
  }
  pub fn force(this: &Self) -> &T {
    this.cell.get_or_init(|| {
      let f = this.init.lock().unwrap().take().expect("LazyLock initialiser ran twice");
      f()
    })
  }
}

impl<T: Default> Default for LazyLock<T> {
  fn default() -> Self {
    LazyLock::new(T::default)
  }
}

impl<T: std::fmt::Debug, F> std::fmt::Debug for LazyLock<T, F> {
  fn fmt(&self, f: &mut std::fmt::Formatter<'_>) -> std::fmt::Result {
    match self.cell.inner.get() {
      Some(v) => f.debug_tuple("LazyLock").field(v).finish(),
      None => f.write_str("LazyLock(<uninit>)"),
    }
  }
}

impl<T, F: FnOnce() -> T> std::ops::Deref for LazyLock<T, F> {
  type Target = T;
  fn deref(&self) -> &T {
    LazyLock::force(self)
  }
}

// ---------------------------------------------------------------------------------------

pub mod atomic {
  pub use std::sync::atomic::*;

  macro_rules! int_atomic {
    ($name:ident, $t:ty) => {
      #[derive(Default)]
      pub struct $name(std::sync::atomic::$name);
      impl $name {
        pub const fn new(v: $t) -> Self {
          $name(std::sync::atomic::$name::new(v))
        }
        pub fn load(&self, o: Ordering) -> $t {
          super::yield_hook("atomic-load");
          self.0.load(o)
        }
        pub fn store(&self, v: $t, o: Ordering) {
          super::yield_hook("atomic-store");
          self.0.store(v, o)
        }
        pub fn swap(&self, v: $t, o: Ordering) -> $t {
          super::yield_hook("atomic-rmw");
          self.0.swap(v, o)
        }
        pub fn compare_exchange(&self, c: $t, n: $t, s: Ordering, f: Ordering) -> Result<$t, $t> {
          super::yield_hook("atomic-rmw");
          self.0.compare_exchange(c, n, s, f)
        }
        pub fn compare_exchange_weak(&self, c: $t, n: $t, s: Ordering, f: Ordering) -> Result<$t, $t> {
          super::yield_hook("atomic-rmw");
          self.0.compare_exchange_weak(c, n, s, f)
        }
        pub fn fetch_add(&self, v: $t, o: Ordering) -> $t {
          super::yield_hook("atomic-rmw");
          self.0.fetch_add(v, o)
        }
        pub fn fetch_sub(&self, v: $t, o: Ordering) -> $t {
          super::yield_hook("atomic-rmw");
          self.0.fetch_sub(v, o)
        }
        pub fn fetch_and(&self, v: $t, o: Ordering) -> $t {
          super::yield_hook("atomic-rmw");
          self.0.fetch_and(v, o)
        }
        pub fn fetch_or(&self, v: $t, o: Ordering) -> $t {
          super::yield_hook("atomic-rmw");
          self.0.fetch_or(v, o)
        }
        pub fn fetch_xor(&self, v: $t, o: Ordering) -> $t {
          super::yield_hook("atomic-rmw");
          self.0.fetch_xor(v, o)
        }
        pub fn fetch_nand(&self, v: $t, o: Ordering) -> $t {
          super::yield_hook("atomic-rmw");
          self.0.fetch_nand(v, o)
        }
        pub fn as_ptr(&self) -> *mut $t {
          self.0.as_ptr()
        }
        pub fn fetch_max(&self, v: $t, o: Ordering) -> $t {
          super::yield_hook("atomic-rmw");
          self.0.fetch_max(v, o)
        }
        pub fn fetch_min(&self, v: $t, o: Ordering) -> $t {
          super::yield_hook("atomic-rmw");
          self.0.fetch_min(v, o)
        }
        pub fn fetch_update<F: FnMut($t) -> Option<$t>>(&self, s: Ordering, f: Ordering, g: F) -> Result<$t, $t> {
          super::yield_hook("atomic-rmw");
          self.0.fetch_update(s, f, g)
        }
        pub fn get_mut(&mut self) -> &mut $t {
          self.0.get_mut()
        }
        pub fn into_inner(self) -> $t {
          self.0.into_inner()
        }
      }
      impl From<$t> for $name {
        fn from(v: $t) -> Self {
          Self::new(v)
        }
      }
      impl std::fmt::Debug for $name {
        fn fmt(&self, f: &mut std::fmt::Formatter<'_>) -> std::fmt::Result {
          self.0.fmt(f)
        }
      }
    };
  }
  int_atomic!(AtomicUsize, usize);
  int_atomic!(AtomicIsize, isize);
  int_atomic!(AtomicU64, u64);
  int_atomic!(AtomicI64, i64);
  int_atomic!(AtomicU32, u32);
  int_atomic!(AtomicI32, i32);
  int_atomic!(AtomicU16, u16);
  int_atomic!(AtomicI16, i16);
  int_atomic!(AtomicU8, u8);
  int_atomic!(AtomicI8, i8);

  #[derive(Default)]
  pub struct AtomicBool(std::sync::atomic::AtomicBool);
  impl AtomicBool {
    pub const fn new(v: bool) -> Self {
      AtomicBool(std::sync::atomic::AtomicBool::new(v))
    }
    pub fn load(&self, o: Ordering) -> bool {
      super::yield_hook("atomic-load");
      self.0.load(o)
    }
    pub fn store(&self, v: bool, o: Ordering) {
      super::yield_hook("atomic-store");
      self.0.store(v, o)
    }
    pub fn swap(&self, v: bool, o: Ordering) -> bool {
      super::yield_hook("atomic-rmw");
      self.0.swap(v, o)
    }
    pub fn compare_exchange(&self, c: bool, n: bool, s: Ordering, f: Ordering) -> Result<bool, bool> {
      super::yield_hook("atomic-rmw");
      self.0.compare_exchange(c, n, s, f)
    }
    pub fn compare_exchange_weak(&self, c: bool, n: bool, s: Ordering, f: Ordering) -> Result<bool, bool> {
      super::yield_hook("atomic-rmw");
      self.0.compare_exchange_weak(c, n, s, f)
    }
    pub fn fetch_and(&self, v: bool, o: Ordering) -> bool {
      super::yield_hook("atomic-rmw");
      self.0.fetch_and(v, o)
    }
    pub fn fetch_or(&self, v: bool, o: Ordering) -> bool {
      super::yield_hook("atomic-rmw");
      self.0.fetch_or(v, o)
    }
    pub fn fetch_xor(&self, v: bool, o: Ordering) -> bool {
      super::yield_hook("atomic-rmw");
      self.0.fetch_xor(v, o)
    }
    pub fn fetch_not(&self, o: Ordering) -> bool {
      super::yield_hook("atomic-rmw");
      self.0.fetch_not(o)
    }
    pub fn as_ptr(&self) -> *mut bool {
      self.0.as_ptr()
    }
    pub fn fetch_nand(&self, v: bool, o: Ordering) -> bool {
      super::yield_hook("atomic-rmw");
      self.0.fetch_nand(v, o)
    }
    pub fn fetch_update<F: FnMut(bool) -> Option<bool>>(&self, s: Ordering, f: Ordering, g: F) -> Result<bool, bool> {
      super::yield_hook("atomic-rmw");
      self.0.fetch_update(s, f, g)
    }
    pub fn get_mut(&mut self) -> &mut bool {
      self.0.get_mut()
    }
    pub fn into_inner(self) -> bool {
      self.0.into_inner()
    }
  }
  impl From<bool> for AtomicBool {
    fn from(v: bool) -> Self {
      Self::new(v)
    }
  }
  impl std::fmt::Debug for AtomicBool {
    fn fmt(&self, f: &mut std::fmt::Formatter<'_>) -> std::fmt::Result {
      self.0.fmt(f)
    }
  }
}
