//! Per-language snippet corpora. Each snippet is a self-contained top-level construct that
//! parses without errors on its own and when joined with other snippets by newlines.
//! Snippets are chosen so that the rule pack (rules.rs) and the edit-world patterns find
//! matches frequently.

pub struct LangCorpus {
  pub lang: &'static str, // name accepted by SupportLang::from_str / rule `language:`
  pub ext: &'static str,
  pub snippets: &'static [&'static str],
  /// (pattern, fix) pairs valid for `sg run -p .. -r ..` and AstGrep::replace
  pub rewrites: &'static [(&'static str, &'static str)],
  /// patterns used as probes for find_all
  pub probes: &'static [&'static str],
}

/// a call more than 512 bytes into its line (three alignments of the blanks before it)
pub const LONG_LINE_A: &str = "const w = [0, 0, 0, 0, 0, 0, 0, 0, 0, 0, 0, 0, 0, 0, 0, 0, 0, 0, 0, 0, 0, 0, 0, 0, 0, 0, 0, 0, 0, 0, 0, 0, 0, 0, 0, 0, 0, 0, 0, 0, 0, 0, 0, 0, 0, 0, 0, 0, 0, 0, 0, 0, 0, 0, 0, 0, 0, 0, 0, 0, 0, 0, 0, 0, 0, 0, 0, 0, 0, 0, 0, 0, 0, 0, 0, 0, 0, 0, 0, 0, 0, 0, 0, 0, 0, 0, 0, 0, 0, 0, 0, 0, 0, 0, 0, 0, 0, 0, 0, 0, 0, 0, 0, 0, 0, 0, 0, 0, 0, 0, 0, 0, 0, 0, 0, 0, 0, 0, 0, 0, 0, 0, 0, 0, 0, 0, 0, 0, 0, 0, 0, 0, 0, 0, 0, 0, 0, 0, 0, 0, 0, 0, 0, 0, 0, 0, 0, 0, 0, 0, 0, 0, 0, 0, 0, 0, 0, 0, 0, 0, 0, 0, 0, 0, 0, 0, 0, 0, 0, 0, 0, 0, 0, 0, 0, 0, 0, 0, 0, 0, 0, 0, 0, 0, 0, 0, 0, 0, 0, 0, foo(1, () => {\n  first();\n})];";
pub const LONG_LINE_B: &str = "const ww = [0, 0, 0, 0, 0, 0, 0, 0, 0, 0, 0, 0, 0, 0, 0, 0, 0, 0, 0, 0, 0, 0, 0, 0, 0, 0, 0, 0, 0, 0, 0, 0, 0, 0, 0, 0, 0, 0, 0, 0, 0, 0, 0, 0, 0, 0, 0, 0, 0, 0, 0, 0, 0, 0, 0, 0, 0, 0, 0, 0, 0, 0, 0, 0, 0, 0, 0, 0, 0, 0, 0, 0, 0, 0, 0, 0, 0, 0, 0, 0, 0, 0, 0, 0, 0, 0, 0, 0, 0, 0, 0, 0, 0, 0, 0, 0, 0, 0, 0, 0, 0, 0, 0, 0, 0, 0, 0, 0, 0, 0, 0, 0, 0, 0, 0, 0, 0, 0, 0, 0, 0, 0, 0, 0, 0, 0, 0, 0, 0, 0, 0, 0, 0, 0, 0, 0, 0, 0, 0, 0, 0, 0, 0, 0, 0, 0, 0, 0, 0, 0, 0, 0, 0, 0, 0, 0, 0, 0, 0, 0, 0, 0, 0, 0, 0, 0, 0, 0, 0, 0, 0, 0, 0, 0, 0, 0, 0, 0, 0, 0, 0, 0, 0, 0, 0, 0, 0, 0, 0, 0, foo(1, () => {\n  first();\n})];";
pub const LONG_LINE_C: &str = "const www = [0, 0, 0, 0, 0, 0, 0, 0, 0, 0, 0, 0, 0, 0, 0, 0, 0, 0, 0, 0, 0, 0, 0, 0, 0, 0, 0, 0, 0, 0, 0, 0, 0, 0, 0, 0, 0, 0, 0, 0, 0, 0, 0, 0, 0, 0, 0, 0, 0, 0, 0, 0, 0, 0, 0, 0, 0, 0, 0, 0, 0, 0, 0, 0, 0, 0, 0, 0, 0, 0, 0, 0, 0, 0, 0, 0, 0, 0, 0, 0, 0, 0, 0, 0, 0, 0, 0, 0, 0, 0, 0, 0, 0, 0, 0, 0, 0, 0, 0, 0, 0, 0, 0, 0, 0, 0, 0, 0, 0, 0, 0, 0, 0, 0, 0, 0, 0, 0, 0, 0, 0, 0, 0, 0, 0, 0, 0, 0, 0, 0, 0, 0, 0, 0, 0, 0, 0, 0, 0, 0, 0, 0, 0, 0, 0, 0, 0, 0, 0, 0, 0, 0, 0, 0, 0, 0, 0, 0, 0, 0, 0, 0, 0, 0, 0, 0, 0, 0, 0, 0, 0, 0, 0, 0, 0, 0, 0, 0, 0, 0, 0, 0, 0, 0, 0, 0, 0, 0, 0, 0, foo(1, () => {\n  first();\n})];";

pub const TS_SNIPPETS: &[&str] = &[
  "let a = 1 + 2;",
  "const total = price + tax;",
  "console.log(total);",
  "console.log(\"héllo 🌍\", a);",
  "function add(x: number, y: number): number {\n  return x + y;\n}",
  "function greet(name: string) {\n  console.log(name);\n  return name + \"!\";\n}",
  "const 变量 = foo(1, 2);",
  "if (a == b) {\n  foo(a, b);\n}",
  "for (let i = 0; i < 10; i++) {\n  console.log(i);\n}",
  "class Point {\n  x = 0;\n  move(dx: number) {\n    this.x = this.x + dx;\n  }\n}",
  "var legacy = require(\"fs\");",
  "debugger;",
  "const s = `tpl ${a + b}`;",
  "foo(1, 2);",
  "foo(a, a);",
  "bar(foo(3, 4), 5);",
  "export const café = \"naïve\" + \"é\";",
  "let z = 3;",
  "eval(\"1 + 1\");",
  "try {\n  risky();\n} catch (e) {\n  console.log(e);\n}",
  "// ast-grep-ignore\nconsole.log(\"suppressed\");",
  "console.log(1); // ast-grep-ignore: no-console",
  "const arr = [1, 2, 3].map((n) => n + 1);",
  "const tight = [1,2,3];",
  "console.log(console.log(1));",
  "bar(1, 2);",
  "if ((a == b) == c) {\n  foo(foo(1, 2), 3);\n}",
  "// ast-grep-ignore: no-console\nconsole.log(2);",
  "function later() {\n  foo(1, () => {\n    first();\n\n    second();\n  });\n}",
  "function hello(name: string) {\n  console.log(name);\n}",
  "const v = bar(1, foo(2, () => {\n  later();\n}),);",
  LONG_LINE_A,
  LONG_LINE_B,
  LONG_LINE_C,
  "let first = 1, second = 2",
  "if (a == b) foo(a, b)\nelse bar(1, 2)",
];

pub const JS_SNIPPETS: &[&str] = &[
  "let a = 1 + 2;",
  "var total = price + tax;",
  "console.log(total);",
  "console.log('héllo 🌍', a);",
  "function add(x, y) {\n  return x + y;\n}",
  "function greet(name) {\n  console.log(name);\n  return name + '!';\n}",
  "const 变量 = foo(1, 2);",
  "if (a == b) {\n  foo(a, b);\n}",
  "for (let i = 0; i < 10; i++) {\n  console.log(i);\n}",
  "var legacy = require('fs');",
  "debugger;",
  "foo(1, 2);",
  "foo(a, a);",
  "bar(foo(3, 4), 5);",
  "let z = 3;",
  "eval('1 + 1');",
  "const arr = [1, 2, 3].map((n) => n + 1);",
  "const tight = [1,2,3];",
  "console.log(console.log(1));",
  "bar(1, 2);",
  "if ((a == b) == c) {\n  foo(foo(1, 2), 3);\n}",
  "alert(123);",
  "// ast-grep-ignore: no-console\nconsole.log(2);",
  "function later() {\n  foo(1, () => {\n    first();\n\n    second();\n  });\n}",
  "function hello(name) {\n  console.log(name);\n}",
  "const v = bar(1, foo(2, () => {\n  later();\n}),);",
  LONG_LINE_A,
  LONG_LINE_B,
  LONG_LINE_C,
  "var first = 1, second = 2",
  "if (a == b) foo(a, b)\nelse bar(1, 2)",
];

pub const PY_SNIPPETS: &[&str] = &[
  "a = 1 + 2",
  "total = price + tax",
  "print(total)",
  "print(\"héllo 🌍\", a)",
  "def add(x, y):\n    return x + y",
  "def greet(name):\n    print(name)\n    return name + \"!\"",
  "变量 = foo(1, 2)",
  "if a == b:\n    foo(a, b)",
  "for i in range(10):\n    print(i)",
  "class Point:\n    x = 0\n\n    def move(self, dx):\n        self.x = self.x + dx",
  "import os",
  "foo(1, 2)",
  "foo(a, a)",
  "bar(foo(3, 4), 5)",
  "z = 3",
  "eval(\"1 + 1\")",
  "try:\n    risky()\nexcept Exception as e:\n    print(e)",
  "xs = [n + 1 for n in range(3)]",
  "print(print(1))",
];

pub const RS_SNIPPETS: &[&str] = &[
  "fn add(x: i32, y: i32) -> i32 {\n    x + y\n}",
  "fn main() {\n    let a = 1 + 2;\n    println!(\"{}\", a);\n}",
  "fn greet(name: &str) -> String {\n    let s = name.to_string();\n    s\n}",
  "const TOTAL: i32 = 1 + 2;",
  "static NAME: &str = \"héllo 🌍\";",
  "struct Point {\n    x: i32,\n    y: i32,\n}",
  "impl Point {\n    fn mv(&mut self, dx: i32) {\n        self.x = self.x + dx;\n    }\n}",
  "fn risky() -> Option<i32> {\n    let v = foo(1, 2).unwrap();\n    Some(v)\n}",
  "fn looper() {\n    for i in 0..10 {\n        foo(i, i);\n    }\n}",
  "use std::collections::HashMap;",
  "fn z() {\n    let z = 3;\n    bar(foo(3, 4), 5);\n}",
  "// comment line",
  "fn cmp(a: i32, b: i32) -> bool {\n    if a == b {\n        return true;\n    }\n    false\n}",
];

pub const GO_SNIPPETS: &[&str] = &[
  "func add(x int, y int) int {\n\treturn x + y\n}",
  "func main() {\n\ta := 1 + 2\n\tfmt.Println(a)\n}",
  "func greet(name string) string {\n\tfmt.Println(name)\n\treturn name + \"!\"\n}",
  "var total = 1 + 2",
  "const name = \"héllo 🌍\"",
  "type Point struct {\n\tx int\n\ty int\n}",
  "func (p *Point) Move(dx int) {\n\tp.x = p.x + dx\n}",
  "func looper() {\n\tfor i := 0; i < 10; i++ {\n\t\tfoo(i, i)\n\t}\n}",
  "func z() {\n\tz := 3\n\tbar(foo(3, 4), z)\n}",
  "// comment line",
  "func cmp(a int, b int) bool {\n\tif a == b {\n\t\treturn true\n\t}\n\treturn false\n}",
];

pub const CSS_SNIPPETS: &[&str] = &[
  "a {\n  color: red;\n}",
  ".box {\n  margin: 0 auto;\n  color: blue;\n}",
  "#main > p {\n  font-size: 12px;\n}",
  "@media (max-width: 600px) {\n  .box {\n    display: none;\n  }\n}",
  "h1, h2 {\n  font-family: \"Héllo\", serif;\n}",
  ".é {\n  color: red;\n}",
  "/* comment */",
  "p {\n  color: red !important;\n}",
];

pub const HTML_SNIPPETS: &[&str] = &[
  "<div class=\"box\">héllo 🌍</div>",
  "<p>text</p>",
  "<script>\nconsole.log(1);\nlet a = 1 + 2;\n</script>",
  "<script>foo(1, 2);</script>",
  "<style>\na { color: red; }\n</style>",
  "<style>.box { color: red; margin: 0; }</style>",
  "<ul>\n  <li>one</li>\n  <li>two</li>\n</ul>",
  "<img src=\"a.png\">",
  "<div id=\"main\"><span>x</span></div>",
  "<!-- comment -->",
  "<a href=\"#\">link</a>",
];

pub const JAVA_SNIPPETS: &[&str] = &[
  "class A {\n  int add(int x, int y) {\n    return x + y;\n  }\n}",
  "class B {\n  void main() {\n    int a = 1 + 2;\n    System.out.println(a);\n  }\n}",
  "class C {\n  String name = \"héllo 🌍\";\n}",
  "interface Shape {\n  int area();\n}",
  "class D {\n  void z() {\n    int z = 3;\n    bar(foo(3, 4), z);\n  }\n}",
  "// comment line",
  "class E {\n  boolean cmp(int a, int b) {\n    if (a == b) {\n      return true;\n    }\n    return false;\n  }\n}",
];

pub const C_SNIPPETS: &[&str] = &[
  "int add(int x, int y) {\n  return x + y;\n}",
  "int main() {\n  int a = 1 + 2;\n  printf(\"%d\", a);\n  return 0;\n}",
  "const char *name = \"héllo 🌍\";",
  "struct point {\n  int x;\n  int y;\n};",
  "void z() {\n  int z = 3;\n  bar(foo(3, 4), z);\n}",
  "// comment line",
  "int cmp(int a, int b) {\n  if (a == b) {\n    return 1;\n  }\n  return 0;\n}",
  "#include <stdio.h>",
];

pub const RUBY_SNIPPETS: &[&str] = &[
  "a = 1 + 2",
  "puts total",
  "def add(x, y)\n  x + y\nend",
  "def greet(name)\n  puts name\n  name + \"!\"\nend",
  "class Point\n  def move(dx)\n    @x = @x + dx\n  end\nend",
  "foo(1, 2)",
  "bar(foo(3, 4), 5)",
  "z = 3",
  "name = \"héllo 🌍\"",
  "# comment line",
];


pub const TSX_SNIPPETS: &[&str] = &[
  "let a = 1 + 2;",
  "const el = <div className=\"box\">héllo 🌍</div>;",
  "function App(props: { name: string }) {\n  return <p>{props.name}</p>;\n}",
  "console.log(total);",
  "const list = items.map((i) => <li key={i}>{i + 1}</li>);",
  "foo(1, 2);",
  "export default App;",
  "if (a == b) {\n  foo(a, b);\n}",
];

pub const JSON_SNIPPETS: &[&str] = &[
  "{\"a\": 1, \"b\": [1, 2, 3]}",
  "{\n  \"name\": \"héllo 🌍\",\n  \"nested\": {\"x\": true, \"y\": null}\n}",
  "[1, 2, {\"k\": \"v\"}]",
];

pub const LUA_SNIPPETS: &[&str] = &[
  "local a = 1 + 2",
  "print(total)",
  "function add(x, y)\n  return x + y\nend",
  "local t = { x = 1, y = 2 }",
  "for i = 1, 10 do\n  print(i)\nend",
  "if a == b then\n  foo(a, b)\nend",
  "-- comment line",
  "local s = \"héllo 🌍\"",
  "foo(1, 2)",
];

pub const BASH_SNIPPETS: &[&str] = &[
  "a=1",
  "echo \"héllo 🌍\"",
  "if [ \"$a\" = \"$b\" ]; then\n  echo same\nfi",
  "for i in 1 2 3; do\n  echo $i\ndone",
  "add() {\n  echo $(($1 + $2))\n}",
  "# comment line",
  "ls -la | grep foo",
  "export PATH=\"$PATH:/x\"",
];

pub const KOTLIN_SNIPPETS: &[&str] = &[
  "val a = 1 + 2",
  "fun add(x: Int, y: Int): Int {\n    return x + y\n}",
  "fun main() {\n    println(\"héllo 🌍\")\n}",
  "class Point(val x: Int, val y: Int)",
  "// comment line",
  "val s = foo(1, 2)",
];

pub const CPP_SNIPPETS: &[&str] = &[
  "int add(int x, int y) {\n  return x + y;\n}",
  "class Point {\npublic:\n  int x;\n  int y;\n};",
  "int main() {\n  int a = 1 + 2;\n  std::cout << a;\n  return 0;\n}",
  "const char *name = \"héllo 🌍\";",
  "// comment line",
  "namespace ns {\nint z = 3;\n}",
  "#include <vector>",
];

pub const CSHARP_SNIPPETS: &[&str] = &[
  "class A {\n  int Add(int x, int y) {\n    return x + y;\n  }\n}",
  "class B {\n  string name = \"héllo 🌍\";\n}",
  "using System;",
  "// comment line",
  "class C {\n  void Z() {\n    int z = 3;\n    Bar(Foo(3, 4), z);\n  }\n}",
];

pub const PHP_SNIPPETS: &[&str] = &[
  "<?php\n$a = 1 + 2;",
];

pub const SCALA_SNIPPETS: &[&str] = &[
  "val a = 1 + 2",
  "def add(x: Int, y: Int): Int = x + y",
  "object Main {\n  def main(args: Array[String]): Unit = {\n    println(\"héllo 🌍\")\n  }\n}",
  "class Point(val x: Int, val y: Int)",
  "// comment line",
];

pub const SWIFT_SNIPPETS: &[&str] = &[
  "let a = 1 + 2",
  "func add(x: Int, y: Int) -> Int {\n    return x + y\n}",
  "print(\"héllo 🌍\")",
  "struct Point {\n    var x: Int\n    var y: Int\n}",
  "// comment line",
  "let s = foo(1, 2)",
];

pub const YAML_SNIPPETS: &[&str] = &[
  "a: 1",
  "name: \"héllo 🌍\"",
  "list:\n  - 1\n  - 2\n  - x: y",
  "nested:\n  k: v\n  other: [1, 2]",
  "# comment line",
];

pub const HASKELL_SNIPPETS: &[&str] = &[
  "add :: Int -> Int -> Int\nadd x y = x + y",
  "main :: IO ()\nmain = putStrLn \"hello\"",
  "-- comment line",
  "z = 3",
  "f =\n do a\n        b",
  "g = do\n  x <- foo\n  bar x",
  "h x = case x of\n  1 -> 2\n  _ -> 3",
  "k = let\n    a = 1\n    b = 2\n  in a + b",
  "m y = n y + 1\n  where\n    n v = v",
];

pub const ELIXIR_SNIPPETS: &[&str] = &[
  "a = 1 + 2",
  "IO.puts(\"héllo 🌍\")",
  "defmodule M do\n  def add(x, y) do\n    x + y\n  end\nend",
  "# comment line",
  "foo(1, 2)",
];

pub const CORPORA: &[LangCorpus] = &[
  LangCorpus {
    lang: "TypeScript",
    ext: "ts",
    snippets: TS_SNIPPETS,
    rewrites: &[
      ("$A + $B", "$B + $A"),
      ("console.log($A)", "log($A)"),
      ("let $A = $B", "const $A = $B"),
      ("foo($A, $B)", "foo(\n  $B,\n  $A\n)"),
      ("foo($A, $B)", "bar(\n  $B,\n      $B,\n  $A\n)"),
      ("foo($A, $B)", "lib.$post($B, $A)"),
      ("bar($$$ARGS)", "baz(\n  $$$ARGS\n)"),
      ("debugger", ""),
      ("$A == $B", "$A === $B"),
      ("if ($C) $B", "if (!($C)) $B"),
    ],
    probes: &["$A + $B", "$F($$$ARGS)", "console.log($$$A)"],
  },
  LangCorpus {
    lang: "JavaScript",
    ext: "js",
    snippets: JS_SNIPPETS,
    rewrites: &[
      ("$A + $B", "$B + $A"),
      ("console.log($A)", "log($A)"),
      ("var $A = $B", "let $A = $B"),
      ("foo($A, $B)", "foo(\n  $B,\n  $A\n)"),
      ("foo($A, $B)", "bar(\n  $B,\n      $B,\n  $A\n)"),
      ("foo($A, $B)", "lib.$post($B, $A)"),
      ("bar($$$ARGS)", "baz(\n  $$$ARGS\n)"),
      ("$A == $B", "$A === $B"),
      ("if ($C) $B", "if (!($C)) $B"),
    ],
    probes: &["$A + $B", "$F($$$ARGS)", "console.log($$$A)"],
  },
  LangCorpus {
    lang: "Python",
    ext: "py",
    snippets: PY_SNIPPETS,
    rewrites: &[
      ("$A + $B", "$B + $A"),
      ("print($A)", "log($A)"),
      ("foo($A, $B)", "foo($B, $A)"),
      ("$A == $B", "$A is $B"),
    ],
    probes: &["$A + $B", "$F($$$ARGS)", "print($$$A)"],
  },
  LangCorpus {
    lang: "Rust",
    ext: "rs",
    snippets: RS_SNIPPETS,
    rewrites: &[
      ("$A + $B", "$B + $A"),
      ("let $A = $B;", "let mut $A = $B;"),
      ("foo($A, $B)", "foo($B, $A)"),
      ("$A.unwrap()", "$A?"),
    ],
    probes: &["$A + $B", "$F($$$ARGS)", "let $A = $B;"],
  },
  LangCorpus {
    lang: "Go",
    ext: "go",
    snippets: GO_SNIPPETS,
    rewrites: &[
      ("$A + $B", "$B + $A"),
      ("fmt.Println($A)", "log.Println($A)"),
      ("foo($A, $B)", "foo($B, $A)"),
    ],
    probes: &["$A + $B", "$F($$$ARGS)", "fmt.Println($$$A)"],
  },
  LangCorpus {
    lang: "Css",
    ext: "css",
    snippets: CSS_SNIPPETS,
    rewrites: &[("color: $A", "background: $A"), ("margin: $$$A", "padding: $$$A")],
    probes: &["color: $A", "$A { $$$B }"],
  },
  LangCorpus {
    lang: "Html",
    ext: "html",
    snippets: HTML_SNIPPETS,
    rewrites: &[("<p>$$$A</p>", "<div>$$$A</div>")],
    probes: &["<p>$$$A</p>", "<li>$$$A</li>"],
  },
  LangCorpus {
    lang: "Java",
    ext: "java",
    snippets: JAVA_SNIPPETS,
    rewrites: &[("$A + $B", "$B + $A"), ("foo($A, $B)", "foo($B, $A)")],
    probes: &["$A + $B", "$F($$$ARGS)"],
  },
  LangCorpus {
    lang: "C",
    ext: "c",
    snippets: C_SNIPPETS,
    rewrites: &[("$A + $B", "$B + $A"), ("foo($A, $B)", "foo($B, $A)")],
    probes: &["$A + $B", "$F($$$ARGS)"],
  },
  LangCorpus {
    lang: "Ruby",
    ext: "rb",
    snippets: RUBY_SNIPPETS,
    rewrites: &[("$A + $B", "$B + $A"), ("foo($A, $B)", "foo($B, $A)")],
    probes: &["$A + $B", "foo($$$ARGS)"],
  },
  LangCorpus { lang: "Tsx", ext: "tsx", snippets: TSX_SNIPPETS, rewrites: &[("$A + $B", "$B + $A"), ("console.log($A)", "log($A)")], probes: &["$A + $B", "$F($$$ARGS)"] },
  LangCorpus { lang: "Lua", ext: "lua", snippets: LUA_SNIPPETS, rewrites: &[("$A + $B", "$B + $A"), ("print($A)", "log($A)")], probes: &["$A + $B", "$F($$$ARGS)"] },
  LangCorpus { lang: "Bash", ext: "sh", snippets: BASH_SNIPPETS, rewrites: &[("echo $A", "printf $A")], probes: &["echo $A"] },
  LangCorpus { lang: "Kotlin", ext: "kt", snippets: KOTLIN_SNIPPETS, rewrites: &[("$A + $B", "$B + $A")], probes: &["$A + $B", "$F($$$ARGS)"] },
  LangCorpus { lang: "Cpp", ext: "cpp", snippets: CPP_SNIPPETS, rewrites: &[("$A + $B", "$B + $A")], probes: &["$A + $B"] },
  LangCorpus { lang: "CSharp", ext: "cs", snippets: CSHARP_SNIPPETS, rewrites: &[("$A + $B", "$B + $A")], probes: &["$A + $B", "$F($$$ARGS)"] },
  LangCorpus { lang: "Scala", ext: "scala", snippets: SCALA_SNIPPETS, rewrites: &[("$A + $B", "$B + $A")], probes: &["$A + $B"] },
  LangCorpus { lang: "Swift", ext: "swift", snippets: SWIFT_SNIPPETS, rewrites: &[("$A + $B", "$B + $A")], probes: &["$A + $B", "$F($$$ARGS)"] },
  LangCorpus { lang: "Yaml", ext: "yml", snippets: YAML_SNIPPETS, rewrites: &[("a: $A", "b: $A")], probes: &["$K: $V"] },
  LangCorpus { lang: "Haskell", ext: "hs", snippets: HASKELL_SNIPPETS, rewrites: &[("$A + $B", "$B + $A")], probes: &["$A + $B"] },
  LangCorpus { lang: "Elixir", ext: "ex", snippets: ELIXIR_SNIPPETS, rewrites: &[("$A + $B", "$B + $A")], probes: &["$A + $B", "$F($$$ARGS)"] },
];

pub fn corpus(lang: &str) -> &'static LangCorpus {
  CORPORA.iter().find(|c| c.lang == lang).unwrap_or_else(|| panic!("no corpus for {lang}"))
}

pub const WORDS: &[&str] = &[
  "x", "foo", "résumé", "变量", "data2", "_tmp", "longer_identifier_name", "a", "b", "y1", "é",
];
pub const FRAGMENTS: &[&str] = &[
  " ", "\n", "1", "42", "(", ")", "{", "}", ";", ",", "\"", "+", " + 1", "🌍", "é", "\r\n", "\t", "=", "//", "x",
];

use crate::rng::Rng;

/// A document of `n` snippets joined by `sep`.
pub fn make_doc(rng: &mut Rng, c: &LangCorpus, n: usize, crlf: bool) -> String {
  let sep = if crlf { "\r\n" } else { "\n" };
  let mut out = String::new();
  for i in 0..n {
    let s = rng.pick(c.snippets);
    if crlf {
      out.push_str(&s.replace('\n', "\r\n"));
    } else {
      out.push_str(s);
    }
    if i + 1 < n || rng.chance(0.8) {
      out.push_str(sep);
      if rng.chance(0.15) {
        out.push_str(sep);
      }
    }
  }
  out
}
