mod c09;
mod c13;
mod c17;
mod c18;
mod cli_run;
mod cli_world;
mod corpus;
mod driver;
mod edit_world;
mod hashseam;
mod rng;
mod rules;
mod sched;
mod selftest;
mod shrink;

use driver::*;

fn sim_for(id: &str) -> Box<dyn Simulation> {
  match id {
    "C09" => Box::new(c09::C09Sim),
    "C10" => Box::new(edit_world::EditSim),
    "C13" => Box::new(c13::C13Sim),
    "C17" => Box::new(c17::C17Sim),
    "C18" => Box::new(c18::C18Sim),
    _ => {
      eprintln!("HARNESS-ERROR: no simulation for property {id}");
      std::process::exit(2)
    }
  }
}

fn opt(args: &[String], name: &str) -> Option<String> {
  let p = format!("--{name}=");
  args.iter().find_map(|a| a.strip_prefix(&p).map(|s| s.to_string()))
}

fn main() {
  let args: Vec<String> = std::env::args().collect();
  if std::env::var("AGSIM_TRACE_GETRANDOM").is_ok() {
    hashseam::enable_trace(true);
  }
  if args.len() == 2 && args[1] == "selftest" {
    std::process::exit(selftest::main());
  }
  if args.len() == 4 && args[1] == "c13-launch" {
    std::process::exit(c13::launch_main(&args[2], &args[3]));
  }
  if args.len() < 3 {
    eprintln!("usage: agsim check <ID> [--tier=quick|thorough] [--seed=N] [--workers=N] [--runs=N] [--secs=N] | agsim replay <ID> <file> | agsim worker <ID> ...");
    std::process::exit(2);
  }
  let cmd = args[1].as_str();
  let id = args[2].as_str();
  let sim = sim_for(id);
  let rest = &args[3..];
  let env_seed = std::env::var("VERIF_SEED").ok().and_then(|s| s.trim().parse::<u64>().ok());
  let seed = opt(rest, "seed").and_then(|s| s.parse().ok()).or(env_seed).unwrap_or(DEFAULT_SEED);
  let env_tier = std::env::var("VERIF_TIER").ok().filter(|t| t == "quick" || t == "thorough");
  let tier = opt(rest, "tier").or(env_tier).unwrap_or_else(|| "quick".into());
  match cmd {
    "check" => {
      let code = check_main(
        &*sim,
        CheckArgs {
          tier,
          seed,
          workers: opt(rest, "workers").and_then(|s| s.parse().ok()).unwrap_or(16),
          runs: opt(rest, "runs").and_then(|s| s.parse().ok()),
          secs: opt(rest, "secs").and_then(|s| s.parse().ok()),
          no_evidence: rest.iter().any(|a| a == "--no-evidence"),
        },
      );
      std::process::exit(code);
    }
    "worker" => {
      let only = opt(rest, "only").map(|s| s.split(',').filter_map(|x| x.parse().ok()).collect::<Vec<u64>>());
      worker_main(
        &*sim,
        WorkerArgs {
          out: opt(rest, "out"),
          seed,
          tier,
          from: opt(rest, "from").and_then(|s| s.parse().ok()).unwrap_or(0),
          step: opt(rest, "step").and_then(|s| s.parse().ok()).unwrap_or(1),
          max_runs: opt(rest, "max-runs").and_then(|s| s.parse().ok()).unwrap_or(1),
          secs: opt(rest, "secs").and_then(|s| s.parse().ok()).unwrap_or(60),
          det_per_worker: opt(rest, "det").and_then(|s| s.parse().ok()).unwrap_or(0),
          only,
        },
      );
    }
    "replay" => {
      let Some(path) = rest.first() else {
        eprintln!("usage: agsim replay <ID> <file>");
        std::process::exit(2);
      };
      std::process::exit(replay_main(&*sim, path));
    }
    _ => {
      eprintln!("unknown command {cmd}");
      std::process::exit(2);
    }
  }
}
