fn main() { println!("agsim skeleton"); }
