//! C13 — results do not depend on map order, hash seeds, repetition or file order.
//!
//! The nondeterminism sources of the property are the simulated dimensions: hash keys
//! (getrandom seam, per simulated thread like a real process launch), rule/util file and
//! directory order, YAML key order inside utils/transform/constraints, rewriter list order,
//! document order inside a rule file, thread count and schedule.

use crate::c17::{parse_output, Cmd};
use crate::cli_run::{self};
use crate::cli_world::{self, CliWorld, GenOpts};
use crate::driver::*;
use crate::hashseam;
use crate::rng::{fnv1a, mix64, Rng};
use crate::sched::{Policy, SchedCfg};
use crate::shrink;
use serde::{Deserialize, Serialize};
use serde_json::{json, Value};
use std::collections::BTreeMap;
use std::path::{Path, PathBuf};

pub struct C13Sim;

const TRIALS_PER_WORLD: usize = 12;

#[derive(Clone, Debug, Serialize, Deserialize)]
pub struct Trial {
  /// rule tests first exist in an earlier state (fewer invalid cases), are snapshotted, then
  /// extended and snapshotted again: the result must equal a from-scratch `test -U`
  #[serde(default)]
  pub incremental: bool,
  pub perm_seed: Option<u64>,
  pub hash_seed: u64,
  pub k: usize,
  pub policy: Policy,
  pub sched_seed: u64,
  /// the launch runs in a process of its own (`agsim c13-launch`): whatever has process lifetime
  /// in ast-grep (statics, lazily initialised tables, thread-locals of the main thread) is as
  /// empty as at a real start-up, not as the earlier launches of this worker left it
  #[serde(default)]
  pub fresh_process: bool,
}

#[derive(Clone, Debug, PartialEq, Default, Serialize, Deserialize)]
pub struct Obs {
  /// Ok(sorted canonical records + error count) or Err(message of the failed command)
  pub scan: Option<Result<(Vec<String>, Option<usize>), String>>,
  pub fixed_tree: BTreeMap<String, Vec<u8>>,
  pub applied: String,
  pub test_update: String,
  pub snapshots: BTreeMap<String, Vec<u8>>,
  pub test_after: String,
  pub aborted: Option<String>,
  pub steps: u64,
  pub events_hash: u64,
}

fn s(x: &str) -> String {
  x.to_string()
}

fn read_tree(root: &Path, w: &CliWorld) -> BTreeMap<String, Vec<u8>> {
  let mut m = BTreeMap::new();
  for f in &w.files {
    m.insert(f.path.clone(), std::fs::read(root.join(&f.path)).unwrap_or_default());
  }
  m
}

fn read_snapshots(root: &Path) -> BTreeMap<String, Vec<u8>> {
  let mut m = BTreeMap::new();
  let dir = root.join("rule-tests/__snapshots__");
  if let Ok(rd) = std::fs::read_dir(&dir) {
    for e in rd.flatten() {
      let name = e.file_name().to_string_lossy().to_string();
      m.insert(name, std::fs::read(e.path()).unwrap_or_default());
    }
  }
  m
}

fn root_dir() -> PathBuf {
  cli_run::scratch_root().join("w")
}

/// `agsim c13-launch IN OUT`: one launch in this (new) process; IN = {world, trial, with_tests}
pub fn launch_main(input: &str, output: &str) -> i32 {
  cli_run::quiet_panics();
  hashseam::set_per_thread(true);
  let Ok(text) = std::fs::read_to_string(input) else { return 2 };
  let Ok(v) = serde_json::from_str::<Value>(&text) else { return 2 };
  let (Ok(w), Ok(mut t)) = (serde_json::from_value::<CliWorld>(v["world"].clone()), serde_json::from_value::<Trial>(v["trial"].clone())) else { return 2 };
  t.fresh_process = false;
  let o = observe(&w, &t, v["with_tests"].as_bool().unwrap_or(false));
  let _ = std::fs::remove_dir_all(cli_run::scratch_root());
  match std::fs::write(output, serde_json::to_vec(&o).unwrap_or_default()) {
    Ok(()) => 0,
    Err(_) => 2,
  }
}

fn observe_in_new_process(w: &CliWorld, t: &Trial, with_tests: bool) -> Obs {
  let dir = cli_run::scratch_root();
  let _ = std::fs::create_dir_all(&dir);
  let (inp, outp) = (dir.join("launch-in.json"), dir.join("launch-out.json"));
  let _ = std::fs::remove_file(&outp);
  // (a harness error, exit 2: the driver reports a panic of the simulation itself as such)
  let fail = |why: String| -> Obs { panic!("launch in a new process failed: {why}") };
  if let Err(e) = std::fs::write(&inp, serde_json::to_vec(&json!({"world": w, "trial": t, "with_tests": with_tests})).unwrap_or_default()) {
    return fail(e.to_string());
  }
  let exe = match std::env::current_exe() {
    Ok(e) => e,
    Err(e) => return fail(e.to_string()),
  };
  let st = std::process::Command::new(exe).arg("c13-launch").arg(&inp).arg(&outp).stdin(std::process::Stdio::null()).stdout(std::process::Stdio::null()).stderr(std::process::Stdio::null()).status();
  match st {
    Ok(s) if s.success() => {}
    Ok(s) => return fail(format!("exit status {s}")),
    Err(e) => return fail(e.to_string()),
  }
  match std::fs::read(&outp).map_err(|e| e.to_string()).and_then(|b| serde_json::from_slice::<Obs>(&b).map_err(|e| e.to_string())) {
    Ok(o) => o,
    Err(e) => fail(e),
  }
}

/// One "process launch" of the project: scan, scan -U, test -U, test.
pub fn observe(w: &CliWorld, t: &Trial, with_tests: bool) -> Obs {
  if t.fresh_process {
    return observe_in_new_process(w, t, with_tests);
  }
  let root = root_dir();
  w.materialize(&root);
  let mut o = Obs::default();
  let mk = |salt: u64| SchedCfg {
    seed: mix64(t.sched_seed ^ salt),
    policy: t.policy.clone(),
    k: t.k,
    forced: None,
    forced_picks: None,
    faults: vec![],
    hash_seed: t.hash_seed,
  };
  let cmd = Cmd { args: vec![s("scan"), s("--json=stream")], mode: s("stream"), inspect: false, is_scan: true };
  let mut events_hash = 0u64;
  // 1. findings
  let mut args = vec![s("sg")];
  args.extend(cmd.args.iter().cloned());
  args.push(s("-j"));
  args.push(t.k.to_string());
  let out = cli_run::run_cli(&root, &args, t.hash_seed, Some(mk(1)));
  if let Some(sr) = &out.sched {
    o.steps += sr.steps;
    events_hash ^= fnv1a(sr.events.join("\n").as_bytes());
    if let Some(a) = &sr.abort {
      o.aborted = Some(a.clone());
      return o;
    }
    if !sr.panics.is_empty() {
      o.aborted = Some(format!("PANIC {}", sr.panics.join("; ")));
      return o;
    }
  }
  if let Some(p) = &out.consumer_panic {
    o.aborted = Some(format!("PANIC {p}"));
    return o;
  }
  o.scan = Some(match parse_output(&cmd, &out) {
    Ok(obs) => match obs.failed {
      Some(f) => Err(first_line(&f)),
      None => Ok((obs.records, obs.errors)),
    },
    Err(e) => Err(format!("malformed output: {e}")),
  });
  // 2. fixes applied to the tree
  let args2 = vec![s("sg"), s("scan"), s("-U"), s("-j"), t.k.to_string()];
  let out2 = cli_run::run_cli(&root, &args2, mix64(t.hash_seed ^ 2), Some(mk(2)));
  if let Some(sr) = &out2.sched {
    o.steps += sr.steps;
    events_hash ^= fnv1a(sr.events.join("\n").as_bytes()).rotate_left(7);
    if let Some(a) = &sr.abort {
      o.aborted = Some(a.clone());
      return o;
    }
  }
  o.fixed_tree = read_tree(&root, w);
  o.applied = out2.stdout_str().lines().filter(|l| l.starts_with("Applied ")).collect::<Vec<_>>().join("|");
  w.write_sources(&root);
  // 3. rule tests: update snapshots, then verify
  if with_tests && w.with_tests {
    if t.incremental {
      // an earlier revision of the project: different fixes, fewer test cases
      w.write_rules(&root, true);
      w.write_tests(&root, true);
      let p1 = cli_run::run_cli(&root, &[s("sg"), s("test"), s("-U")], mix64(t.hash_seed ^ 5), Some(mk(5)));
      let p2 = cli_run::run_cli(&root, &[s("sg"), s("test")], mix64(t.hash_seed ^ 6), Some(mk(6)));
      if p1.result.is_ok() && p2.result.is_err() {
        o.test_after = format!("after `test -U` on the earlier test files, `test` says {}", first_line(p2.result.as_ref().err().unwrap()));
        o.test_update = s("ok");
        o.events_hash = events_hash;
        return o;
      }
      w.write_rules(&root, false);
      w.write_tests(&root, false);
    }
    let t1 = cli_run::run_cli(&root, &[s("sg"), s("test"), s("-U")], mix64(t.hash_seed ^ 3), Some(mk(3)));
    for sr in [&t1.sched].into_iter().flatten() {
      o.steps += sr.steps;
      events_hash ^= fnv1a(sr.events.join("\n").as_bytes()).rotate_left(13);
      if let Some(a) = &sr.abort {
        o.aborted = Some(a.clone());
        return o;
      }
    }
    o.test_update = match &t1.result {
      Ok(()) => s("ok"),
      Err(e) => first_line(e),
    };
    o.snapshots = read_snapshots(&root);
    let t2 = cli_run::run_cli(&root, &[s("sg"), s("test")], mix64(t.hash_seed ^ 4), Some(mk(4)));
    for sr in [&t2.sched].into_iter().flatten() {
      o.steps += sr.steps;
      events_hash ^= fnv1a(sr.events.join("\n").as_bytes()).rotate_left(19);
      if let Some(a) = &sr.abort {
        o.aborted = Some(a.clone());
        return o;
      }
    }
    o.test_after = match &t2.result {
      Ok(()) => s("ok"),
      Err(e) => first_line(e),
    };
    // snapshots must not be rewritten by a plain `test`
    let again = read_snapshots(&root);
    if again != o.snapshots {
      o.test_after = format!("{} (snapshot files changed by plain `sg test`)", o.test_after);
    }
  }
  o.events_hash = events_hash;
  o
}

fn first_line(e: &str) -> String {
  // file names are permuted between launches: keep the error kind, drop paths
  let l = e.lines().next().unwrap_or("");
  l.split_whitespace().map(|w| if w.contains('/') || w.ends_with(".yml") { "<path>" } else { w }).collect::<Vec<_>>().join(" ")
}

/// Compare a trial against the canonical observation.
pub fn compare(c: &Obs, t: &Obs) -> Option<(String, String)> {
  if let Some(a) = &t.aborted {
    let class = a.split_whitespace().next().unwrap_or("ABORT").to_string();
    return Some((class, a.clone()));
  }
  if let Some(a) = &c.aborted {
    let class = a.split_whitespace().next().unwrap_or("ABORT").to_string();
    return Some((class, format!("canonical run: {a}")));
  }
  match (&c.scan, &t.scan) {
    (Some(Ok(a)), Some(Ok(b))) => {
      if a.0 != b.0 {
        let only_c: Vec<&String> = a.0.iter().filter(|x| !b.0.contains(x)).collect();
        let only_t: Vec<&String> = b.0.iter().filter(|x| !a.0.contains(x)).collect();
        let pick = only_c.first().or(only_t.first());
        let rid = pick.and_then(|r| serde_json::from_str::<Value>(r).ok()).map(|v| format!("{} at {} in {}", v["ruleId"], v["range"]["byteOffset"], v["file"])).unwrap_or_default();
        return Some((
          "FINDINGS-DIFFER".into(),
          format!("canonical launch reports {} findings, this launch {}; {} only in canonical, {} only here; e.g. {rid}", a.0.len(), b.0.len(), only_c.len(), only_t.len()),
        ));
      }
      if a.1 != b.1 {
        return Some(("EXIT-STATUS-DIFFERS".into(), format!("error count {:?} vs {:?}", a.1, b.1)));
      }
    }
    (Some(Err(a)), Some(Err(b))) => {
      if a != b {
        return Some(("ACCEPTANCE-DIFFERS".into(), format!("canonical launch fails with {a:?}, this launch with {b:?}")));
      }
    }
    (Some(a), Some(b)) => {
      return Some(("ACCEPTANCE-DIFFERS".into(), format!("canonical launch: {}; this launch: {}", brief(a), brief(b))));
    }
    _ => {}
  }
  if c.fixed_tree != t.fixed_tree {
    let p = c.fixed_tree.iter().find(|(k, v)| t.fixed_tree.get(*k) != Some(v)).map(|(k, _)| k.clone()).unwrap_or_default();
    return Some(("FIXED-TREE-DIFFERS".into(), format!("after `scan -U` file {p} differs between the canonical launch and this one")));
  }
  if c.applied != t.applied {
    return Some(("APPLIED-COUNT-DIFFERS".into(), format!("{:?} vs {:?}", c.applied, t.applied)));
  }
  if c.test_update != t.test_update || c.test_after != t.test_after {
    return Some((
      "TEST-VERDICT-DIFFERS".into(),
      format!("test -U: {:?} vs {:?}; test: {:?} vs {:?}", c.test_update, t.test_update, c.test_after, t.test_after),
    ));
  }
  if c.snapshots != t.snapshots {
    let p = c.snapshots.iter().find(|(k, v)| t.snapshots.get(*k) != Some(v)).map(|(k, _)| k.clone()).unwrap_or_else(|| "(file set)".into());
    return Some(("SNAPSHOT-DIFFERS".into(), format!("snapshot {p} is not byte-identical across launches")));
  }
  None
}

fn brief(r: &Result<(Vec<String>, Option<usize>), String>) -> String {
  match r {
    Ok((v, e)) => format!("accepted, {} findings, errors {e:?}", v.len()),
    Err(e) => format!("rejected: {e}"),
  }
}

/// Checks on a single observation (no comparison needed).
fn check_single(o: &Obs) -> Option<(String, String)> {
  if !o.test_update.is_empty() && o.test_update == "ok" && o.test_after != "ok" {
    return Some(("TEST-AFTER-UPDATE-FAILS".into(), format!("`sg test -U` passed but the following `sg test` says {:?}", o.test_after)));
  }
  None
}

fn canonical_trial(seed: u64) -> Trial {
  Trial { incremental: false, perm_seed: None, hash_seed: mix64(seed ^ 0xC0), k: 1, policy: Policy::Canonical, sched_seed: 0, fresh_process: false }
}

fn gen_trial(seed: u64, i: usize) -> Trial {
  let mut r = Rng::stream(mix64(seed ^ (i as u64 + 1).wrapping_mul(0x9E37_79B9)), "trial");
  let what = r.below(10);
  Trial {
    incremental: r.chance(0.5),
    // some trials vary only the hash seed (a plain re-launch), some only the order
    perm_seed: if what == 0 { None } else { Some(r.next_u64()) },
    hash_seed: if what == 1 { mix64(seed ^ 0xC0) } else { r.next_u64() },
    k: *r.pick(&[1usize, 1, 2, 3, 4, 8]),
    policy: Policy::draw(&mut r),
    sched_seed: r.next_u64(),
    // two launches per world get a process of their own
    fresh_process: i % 6 == 4,
  }
}

fn apply_perm(w: &CliWorld, t: &Trial) -> CliWorld {
  match t.perm_seed {
    None => w.clone(),
    Some(p) => {
      let mut r = Rng::stream(p, "perm");
      cli_world::permute(w, &mut r)
    }
  }
}

fn gen_world(seed: u64) -> CliWorld {
  let mut r = Rng::stream(seed, "world");
  cli_world::gen_world(&mut r, &GenOpts { max_files: 8, allow_special: false, with_tests: true, fix_heavy: false, order_sensitive_rules: true, hard_links: false, injections: true, lang_globs: true })
}

fn verdict(w: &CliWorld, ct: &Trial, t: &Trial) -> Option<(String, String)> {
  let c = observe(w, ct, true);
  if let Some(v) = check_single(&c) {
    return Some(v);
  }
  let wt = apply_perm(w, t);
  let o = observe(&wt, t, true);
  if let Some(v) = check_single(&o) {
    return Some(v);
  }
  compare(&c, &o)
}

fn minimise(w: &CliWorld, ct: &Trial, t: &Trial, class: &str) -> (CliWorld, Trial) {
  let same = |w: &CliWorld, t: &Trial| matches!(verdict(w, ct, t), Some((c, _)) if c == class);
  let mut w = w.clone();
  let mut t = t.clone();
  // simpler trial first: one thread, canonical schedule, then identity permutation
  let mut c = t.clone();
  c.k = 1;
  c.policy = Policy::Canonical;
  if same(&w, &c) {
    t = c;
  }
  let mut c = t.clone();
  c.perm_seed = None;
  if same(&w, &c) {
    t = c;
  }
  // fewer source files
  w.files = shrink::ddmin(&w.files, |fs| {
    let mut w2 = w.clone();
    w2.files = fs.to_vec();
    same(&w2, &t)
  });
  // fewer rule files, then fewer documents per file
  for di in 0..w.rule_dirs.len() {
    let fs = shrink::ddmin(&w.rule_dirs[di].files, |fs| {
      let mut w2 = w.clone();
      w2.rule_dirs[di].files = fs.to_vec();
      same(&w2, &t)
    });
    w.rule_dirs[di].files = fs;
  }
  w.rule_dirs.retain(|d| !d.files.is_empty());
  if w.rule_dirs.is_empty() {
    w.rule_dirs.push(cli_world::RuleDir { name: "rules0".into(), files: vec![] });
  }
  (w, t)
}

impl Simulation for C13Sim {
  fn id(&self) -> &'static str {
    "C13"
  }
  fn tier(&self, name: &str) -> TierCfg {
    if name == "thorough" {
      TierCfg { name: "thorough".into(), max_runs: 30_000, secs: 900 }
    } else {
      TierCfg { name: "quick".into(), max_runs: 640, secs: 150 }
    }
  }
  fn run(&self, seed: u64, _tier: &str, _known: &KnownFindings) -> RunReport {
    cli_run::quiet_panics();
    hashseam::set_per_thread(true);
    let w = gen_world(seed);
    let ct = canonical_trial(seed);
    let mut r = RunReport::default();
    let c = observe(&w, &ct, true);
    r.evals += 1;
    r.steps += c.steps;
    let mut ev = vec![format!("canon {:016x} scan={:?}", c.events_hash, c.scan.as_ref().map(|x| x.as_ref().map(|y| y.0.len()).map_err(|e| e.clone())))];
    let mut viol = check_single(&c).map(|v| (v, ct.clone()));
    let rules = w.all_rules();
    if rules.iter().any(|x| x.utils.len() >= 2) {
      r.count("probe:rule_with_interdependent_local_utils");
    }
    if rules.iter().any(|x| x.transform.len() >= 2) {
      r.count("probe:rule_with_chained_transforms");
    }
    if rules.iter().any(|x| x.constraints.len() >= 2) {
      r.count("probe:rule_with_several_constraints");
    }
    if rules.iter().any(|x| x.rewriters.len() >= 2) {
      r.count("probe:rule_with_interdependent_rewriters");
    }
    if !w.util_dirs.is_empty() {
      r.count("probe:global_utils_depending_on_each_other");
    }
    if let Some(Ok((recs, _))) = &c.scan {
      if !recs.is_empty() {
        r.count("probe:worlds_with_findings");
      }
    }
    if w.injections > 0 {
      r.count("probe:worlds_with_language_injections_in_sgconfig");
    }
    if w.lang_globs.as_ref().is_some_and(|g| !g.is_empty()) {
      r.count("probe:worlds_with_language_globs_in_sgconfig");
    }
    if c.fixed_tree.iter().any(|(p, b)| w.files.iter().any(|f| &f.path == p && &f.bytes() != b)) {
      r.count("probe:worlds_where_fixes_changed_files");
    }
    if !c.snapshots.is_empty() {
      r.count("probe:worlds_with_snapshots");
    }
    if viol.is_none() {
      for i in 0..TRIALS_PER_WORLD {
        let t = gen_trial(seed, i);
        let wt = apply_perm(&w, &t);
        let o = observe(&wt, &t, i % 3 == 0);
        r.evals += 1;
        r.steps += o.steps;
        r.count(&format!("policy:{}", t.policy.name()));
        r.count(if t.perm_seed.is_some() { "policy:permuted-order" } else { "policy:same-order-new-hash-seed" });
        if t.fresh_process {
          r.count("policy:launch-in-a-process-of-its-own");
        }
        if t.incremental && i % 3 == 0 {
          r.count("probe:incremental_snapshot_update_compared_with_from_scratch");
        }
        ev.push(format!("trial {i} {:016x} scan={:?}", o.events_hash, o.scan.as_ref().map(|x| x.as_ref().map(|y| y.0.len()).map_err(|e| e.clone()))));
        // distinct = (world, permutation, hash seed); non-trivial = the world has findings
        if matches!(&o.scan, Some(Ok((recs, _))) if !recs.is_empty()) {
          r.more_hashes.push(fnv1a(format!("{seed}|{:?}|{}|{}|{}", t.perm_seed, t.hash_seed, t.k, o.events_hash).as_bytes()));
        }
        // compare only what this trial observed
        let mut cc = c.clone();
        if !(i % 3 == 0) {
          cc.test_update.clear();
          cc.test_after.clear();
          cc.snapshots.clear();
        }
        let v = check_single(&o).or_else(|| compare(&cc, &o));
        if let Some(v) = v {
          viol = Some((v, t));
          break;
        }
      }
    }
    if (seed & 7) == 0 {
      r.sample = Some(json!({
        "rules": rules.iter().map(|x| x.id.clone()).collect::<Vec<_>>(),
        "rule_files": w.rule_dirs.iter().map(|d| format!("{}: {}", d.name, d.files.iter().map(|f| f.name.clone()).collect::<Vec<_>>().join(","))).collect::<Vec<_>>(),
        "files": w.files.iter().map(|f| f.path.clone()).collect::<Vec<_>>(),
        "canonical_findings": c.scan.as_ref().map(|x| x.as_ref().map(|y| y.0.len()).unwrap_or(0)),
        "trials": TRIALS_PER_WORLD,
        "a_trial": format!("{:?}", gen_trial(seed, 0)),
      }));
    }
    if let Some(((class, detail), t)) = viol {
      let (mw, mt) = minimise(&w, &ct, &t, &class);
      let fin = verdict(&mw, &ct, &mt);
      let (c2, d2) = fin.unwrap_or((class, detail));
      let doc = json!({
        "world": mw, "permuted_world": apply_perm(&mw, &mt), "canonical_trial": ct, "trial": mt,
        "original": {"rules": w.all_rules().len(), "files": w.files.len()},
      });
      r.violation = Some((c2, d2, doc));
    }
    r.event_hash = fnv1a(ev.join("\n").as_bytes());
    if std::env::var("AGSIM_DUMP_EVENTS").is_ok() {
      eprintln!("EV {seed} canon-detail update={:?} after={:?} applied={:?} snaps={:016x} tree={:016x}", c.test_update, c.test_after, c.applied, fnv1a(format!("{:?}", c.snapshots).as_bytes()), fnv1a(format!("{:?}", c.fixed_tree).as_bytes()));
      for e in &ev {
        eprintln!("EV {seed} {e}");
      }
    }
    r
  }
  fn replay(&self, doc: &Value, _known: &KnownFindings) -> ReplayOutcome {
    cli_run::quiet_panics();
    hashseam::set_per_thread(true);
    let bad = |m: String| ReplayOutcome { reproduced: false, class: "".into(), detail: m, event_hash: 0 };
    let w: CliWorld = match serde_json::from_value(doc["world"].clone()) {
      Ok(x) => x,
      Err(e) => return bad(format!("cannot read world: {e}")),
    };
    let ct: Trial = match serde_json::from_value(doc["canonical_trial"].clone()) {
      Ok(x) => x,
      Err(e) => return bad(format!("cannot read canonical trial: {e}")),
    };
    let t: Trial = match serde_json::from_value(doc["trial"].clone()) {
      Ok(x) => x,
      Err(e) => return bad(format!("cannot read trial: {e}")),
    };
    match verdict(&w, &ct, &t) {
      Some((c, d)) => ReplayOutcome { reproduced: true, class: c, detail: d, event_hash: 0 },
      None => ReplayOutcome { reproduced: false, class: "".into(), detail: "both launches agree".into(), event_hash: 0 },
    }
  }
  fn warm_up(&self) {
    crate::selftest::warm_up();
  }
  fn describe(&self) -> Describe {
    Describe {
      rule: "a case = (generated project with inter-dependent local/global utilities incl. shadowing and references inside any/all inside relational rules, chained transformations, constraints sharing variables, rewriters calling rewriters, rewriters reading matched and transformed variables of the enclosing rule, randomly generated rule trees and global utilities, rule tests; 0-8 source files incl. html with script blocks that spell one language two ways and js/ts template strings declared as css/html documents by `languageInjections`) with a `languageGlobs` table (empty, or *.view.ts read as JavaScript), observed by one canonical launch and 12 further launches, two of them in a process of their own (nothing with process lifetime survives from earlier launches), each with a fresh hash seed per simulated thread (getrandom seam), a random permutation of rule dirs / file names / documents per file / top-level sections / keys of utils, transform, constraints / rewriter list, thread count in {1,2,3,4,8} and a seeded schedule. One launch = scan --json=stream, scan -U on a fresh tree, and for every third launch test -U followed by test, half of those as an incremental history (an earlier revision of rules and test files is snapshotted first). Compared: finding multisets, exit status, acceptance, rewritten tree, Applied-N line, test verdicts, snapshot bytes. non-trivial = the launch produced findings; distinct = (world, permutation seed, hash seed, thread count, scheduler trace hash) not seen before".into(),
      assumptions: vec![
        "duplicate rule ids / util ids are never generated (their resolution is legitimately order-defined); record order in the output is never compared".into(),
        "the hash seam controls std RandomState (HashMap/HashSet/DashMap); ahash or other hashers with their own entropy are not used by the crates involved".into(),
      ],
      real: vec!["ast_grep::main_with_args: project discovery, rule/util directory walking, YAML parsing, DeserializeEnv topological sorts, CombinedScan, fixers, InteractivePrinter -U, sg test with snapshot writing".into()],
      stub: vec!["ignore's thread pool (as in C17)".into(), "libc getrandom (interposed: returns seed-derived bytes)".into()],
      time_unit: "n/a; steps = scheduler decisions".into(),
    }
  }
}
