//! `agsim selftest`: every rule template must load and match; `sg test` must pass after -U.
use crate::cli_run;
use crate::cli_world::*;
use crate::rng::Rng;
use crate::rules::*;

/// Run a representative set of commands once per process before anything is measured.
/// Lazily initialised statics in ast-grep's dependencies create hash maps on the thread that
/// touches them first; std gives every new map of a thread the thread's keys plus a running
/// count, so the first launch of a process would otherwise see different map orders than
/// every later launch (observed as a first-run-only divergence under a hash-order-sensitive
/// mutant). After the warm-up all launches of a process start from the same state.
pub fn warm_up() {
  cli_run::quiet_panics();
  let mut rng = Rng::new(99);
  let mut rule_files = vec![];
  let mut util_files = vec![];
  let mut files = vec![];
  let mut n = 0;
  for lang in RULE_LANGS {
    for t in TEMPLATES.iter().filter(|t| t.langs.contains(lang)) {
      let s = instantiate(t, lang, "");
      n += 1;
      if t.is_util {
        util_files.push(RuleFile { name: format!("u{n}.yml"), docs: vec![s] });
      } else {
        rule_files.push(RuleFile { name: format!("r{n}.yml"), docs: vec![s] });
      }
    }
    let ext = crate::corpus::corpus(lang).ext;
    files.push(SrcFile { path: format!("src/w{n}.{ext}"), text: gen_source(&mut rng, lang), hex: None, kind: "normal".into(), link_to: None });
  }
  let w = CliWorld {
    files,
    rule_dirs: vec![RuleDir { name: "rules".into(), files: rule_files }],
    util_dirs: vec![RuleDir { name: "utils".into(), files: util_files }],
    with_tests: true,
    ignore_file: None,
    injections: 2,
    aux_files: vec![],
    lang_globs: None,
  };
  let root = cli_run::scratch_root().join("warmup");
  w.materialize(&root);
  let a = |v: &[&str]| v.iter().map(|s| s.to_string()).collect::<Vec<_>>();
  let sched = || Some(crate::sched::SchedCfg { seed: 1, policy: crate::sched::Policy::Canonical, k: 2, forced: None, forced_picks: None, faults: vec![], hash_seed: 1 });
  for args in [
    a(&["sg", "scan", "--json=stream", "-j", "2"]),
    a(&["sg", "scan", "--json", "--inspect", "summary", "-j", "2"]),
    a(&["sg", "scan", "--format", "github", "-j", "2"]),
    a(&["sg", "scan", "--color", "never", "-j", "2"]),
    a(&["sg", "scan", "--color", "never", "--report-style", "short", "-j", "2"]),
    a(&["sg", "run", "-p", "console.log($A)", "--json=compact", "-j", "2"]),
    a(&["sg", "run", "-p", "console.log($A)", "-l", "TypeScript", "--color", "never", "--heading", "never", "-j", "2"]),
    a(&["sg", "scan", "-U", "-j", "2"]),
    a(&["sg", "run", "-p", "foo($A, $B)", "-r", "foo($B, $A)", "-U", "-j", "2"]),
  ] {
    let _ = cli_run::run_cli(&root, &args, 1, sched());
  }
  let _ = cli_run::run_cli(&root, &a(&["sg", "test", "-U"]), 1, None);
  let _ = cli_run::run_cli(&root, &a(&["sg", "test"]), 1, None);
  let _ = cli_run::run_cli(&root, &a(&["sg", "scan", "--json=stream", "-j", "1", "no-such-file.ts"]), 1, None);
  let _ = std::fs::remove_dir_all(&root);
}

fn corpus_check() -> i32 {
  use ast_grep_core::Language;
  use std::str::FromStr;
  let mut bad = 0;
  for c in crate::corpus::CORPORA {
    let lang = match ast_grep_language::SupportLang::from_str(c.lang) {
      Ok(l) => l,
      Err(_) => {
        println!("corpus {}: unknown language", c.lang);
        bad += 1;
        continue;
      }
    };
    let mut dirty = vec![];
    for (i, sn) in c.snippets.iter().enumerate() {
      let g = lang.ast_grep(format!("{sn}\n"));
      if g.root().get_ts_node().has_error() {
        dirty.push(i);
      }
    }
    let joined = c.snippets.join("\n") + "\n";
    let gj = lang.ast_grep(&joined);
    let pats: usize = c.probes.iter().chain(c.rewrites.iter().map(|r| &r.0)).filter(|p| ast_grep_core::Pattern::try_new(p, lang).is_err()).count();
    println!("corpus {:<11} snippets={} dirty_alone={:?} joined_dirty={} bad_patterns={}", c.lang, c.snippets.len(), dirty, gj.root().get_ts_node().has_error(), pats);
    if !dirty.is_empty() || pats > 0 {
      bad += 1;
    }
  }
  bad
}

pub fn main() -> i32 {
  cli_run::quiet_panics();
  let mut rng = Rng::new(1);
  let mut bad = corpus_check();
  for lang in RULE_LANGS {
    let mut specs = vec![];
    let mut utils = vec![];
    for t in TEMPLATES.iter().filter(|t| t.langs.contains(lang)) {
      let s = instantiate(t, lang, "");
      if t.is_util { utils.push(s) } else { specs.push(s) }
    }
    let mut files = vec![];
    for i in 0..4 {
      let ext = crate::corpus::corpus(lang).ext;
      files.push(SrcFile { path: format!("src/f{i}.{ext}"), text: gen_source(&mut rng, lang), hex: None, kind: "normal".into(), link_to: None });
    }
    let w = CliWorld {
      files,
      rule_dirs: vec![RuleDir { name: "rules".into(), files: specs.iter().enumerate().map(|(i, s)| RuleFile { name: format!("r{i}.yml"), docs: vec![s.clone()] }).collect() }],
      util_dirs: if utils.is_empty() { vec![] } else { vec![RuleDir { name: "utils".into(), files: utils.iter().enumerate().map(|(i, s)| RuleFile { name: format!("u{i}.yml"), docs: vec![s.clone()] }).collect() }] },
      with_tests: true,
      ignore_file: None,
      injections: 0,
      aux_files: vec![],
    lang_globs: None,
    };
    let root = cli_run::scratch_root().join("selftest");
    w.materialize(&root);
    let a = |v: &[&str]| v.iter().map(|s| s.to_string()).collect::<Vec<_>>();
    let out = cli_run::run_cli(&root, &a(&["sg", "scan", "--json=stream", "-j", "2"]), 7, None);
    let text = out.stdout_str();
    let mut per_rule = std::collections::BTreeMap::new();
    for l in text.lines() {
      if let Ok(v) = serde_json::from_str::<serde_json::Value>(l) {
        *per_rule.entry(v["ruleId"].as_str().unwrap_or("?").to_string()).or_insert(0) += 1;
      }
    }
    println!("== {lang}: scan result={:?} records={} stderr={}", out.result, text.lines().count(), out.stderr_str().lines().take(5).collect::<Vec<_>>().join(" | "));
    for s in &specs {
      let n = per_rule.get(&s.id).copied().unwrap_or(0);
      if n == 0 && s.severity.as_deref() != Some("off") {
        println!("   NOTE: rule {} found nothing in the sample files", s.id);
      }
    }
    if out.result.is_err() && out.diagnostic_errors().is_none() {
      bad += 1;
    }
    // randomly generated rules must be accepted by ast-grep (one at a time, 200 of them)
    if matches!(*lang, "TypeScript" | "JavaScript") {
      let mut rejected = 0;
      let mut with_findings = 0;
      for n in 0..200 {
        let spec = gen_random_rule(&mut rng, lang, n);
        let w2 = CliWorld { rule_dirs: vec![RuleDir { name: "rules".into(), files: vec![RuleFile { name: "g.yml".into(), docs: vec![spec.clone()] }] }], util_dirs: vec![], with_tests: false, ..w.clone() };
        w2.materialize(&root);
        let o = cli_run::run_cli(&root, &a(&["sg", "scan", "--json=stream", "-j", "1"]), 7, None);
        if o.result.is_err() && o.diagnostic_errors().is_none() {
          rejected += 1;
          if rejected <= 3 {
            println!("   generated rule rejected: {:?}\n{}", o.result, spec.to_yaml());
          }
        } else if !o.stdout.is_empty() {
          with_findings += 1;
        }
      }
      println!("   generated rules: 200 tried, {rejected} rejected, {with_findings} with findings");
      let mut grej = 0;
      for n in 0..100 {
        let (gs, rs) = gen_random_globals(&mut rng, lang, n);
        let w2 = CliWorld {
          rule_dirs: vec![RuleDir { name: "rules".into(), files: vec![RuleFile { name: "g.yml".into(), docs: rs.clone() }] }],
          util_dirs: vec![RuleDir { name: "utils".into(), files: gs.iter().enumerate().map(|(i, g)| RuleFile { name: format!("g{i}.yml"), docs: vec![g.clone()] }).collect() }],
          with_tests: false,
          ..w.clone()
        };
        if rs.is_empty() {
          continue;
        }
        w2.materialize(&root);
        let o = cli_run::run_cli(&root, &a(&["sg", "scan", "--json=stream", "-j", "1"]), 7, None);
        if o.result.is_err() && o.diagnostic_errors().is_none() {
          grej += 1;
          if grej <= 2 {
            println!("   generated globals rejected: {:?}\n{}\n{}", o.result, gs.iter().map(|g| g.to_yaml()).collect::<Vec<_>>().join("---\n"), rs.iter().map(|g| g.to_yaml()).collect::<Vec<_>>().join("---\n"));
          }
        }
      }
      println!("   generated global utils: 100 projects tried, {grej} rejected");
      if grej > 0 {
        bad += 1;
      }
      if rejected > 0 {
        bad += 1;
      }
    }
    let t1 = cli_run::run_cli(&root, &a(&["sg", "test", "-U"]), 7, None);
    let t2 = cli_run::run_cli(&root, &a(&["sg", "test"]), 7, None);
    println!("   test -U => {:?}; test => {:?}", t1.result, t2.result);
    if t2.result.is_err() {
      bad += 1;
      println!("{}", t2.stdout_str());
      println!("{}", t2.stderr_str());
    }
    if t1.result.is_err() {
      println!("{}", t1.stdout_str().lines().take(60).collect::<Vec<_>>().join("\n"));
    }
  }
  if bad > 0 { 2 } else { 0 }
}
