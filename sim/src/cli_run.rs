//! Running the real CLI (`ast_grep::main_with_args`) in-process: fd-level capture of
//! stdout/stderr, fresh thread per run (fresh hash keys = "one process launch"), optional
//! baton scheduler.

use crate::hashseam;
use crate::sched::{Sched, SchedCfg, SchedResult};
use std::io::Write;
use std::os::fd::RawFd;
use std::path::{Path, PathBuf};
use std::sync::Arc;

#[derive(Debug, Clone)]
pub struct CliOutcome {
  pub stdout: Vec<u8>,
  pub stderr: Vec<u8>,
  /// Ok(()) or the Display of the returned error
  pub result: Result<(), String>,
  /// panic message of the consumer thread, if it panicked
  pub consumer_panic: Option<String>,
  pub sched: Option<SchedResult>,
}

impl Default for CliOutcome {
  fn default() -> Self {
    CliOutcome { stdout: vec![], stderr: vec![], result: Ok(()), consumer_panic: None, sched: None }
  }
}

impl CliOutcome {
  pub fn stdout_str(&self) -> String {
    String::from_utf8_lossy(&self.stdout).into_owned()
  }
  pub fn stderr_str(&self) -> String {
    String::from_utf8_lossy(&self.stderr).into_owned()
  }
  /// `Some(n)` when the command ended with "n error(s) found in code."
  pub fn diagnostic_errors(&self) -> Option<usize> {
    let e = self.result.as_ref().err()?;
    let n = e.strip_suffix(" error(s) found in code.")?;
    n.trim().parse().ok()
  }
}

struct FdCapture {
  target: RawFd,
  saved: RawFd,
  file: std::fs::File,
}

impl FdCapture {
  fn start(target: RawFd, path: &Path) -> FdCapture {
    use std::os::fd::AsRawFd;
    let file = std::fs::OpenOptions::new().create(true).truncate(true).read(true).write(true).open(path).expect("capture file");
    let saved = unsafe { libc::dup(target) };
    assert!(saved >= 0);
    let r = unsafe { libc::dup2(file.as_raw_fd(), target) };
    assert!(r >= 0);
    FdCapture { target, saved, file }
  }
  /// fd `target` becomes the write end of a pipe nobody reads (SIGPIPE is ignored by the
  /// Rust runtime, so writes fail with EPIPE)
  fn start_closed_pipe(target: RawFd, path: &Path) -> FdCapture {
    let file = std::fs::OpenOptions::new().create(true).truncate(true).read(true).write(true).open(path).expect("capture file");
    let saved = unsafe { libc::dup(target) };
    assert!(saved >= 0);
    let mut fds = [0 as RawFd; 2];
    let r = unsafe { libc::pipe(fds.as_mut_ptr()) };
    assert!(r == 0);
    unsafe {
      libc::close(fds[0]);
      libc::dup2(fds[1], target);
      libc::close(fds[1]);
    }
    FdCapture { target, saved, file }
  }
  fn finish(self) -> Vec<u8> {
    use std::io::{Read, Seek, SeekFrom};
    unsafe {
      libc::dup2(self.saved, self.target);
      libc::close(self.saved);
    }
    let mut f = self.file;
    let mut out = vec![];
    let _ = f.seek(SeekFrom::Start(0));
    let _ = f.read_to_end(&mut out);
    out
  }
}

/// Where per-process scratch lives (tmpfs, outside any git repository).
pub fn scratch_root() -> PathBuf {
  let base = if Path::new("/dev/shm").is_dir() { PathBuf::from("/dev/shm") } else { std::env::temp_dir() };
  // fixed width: message sizes (absolute URIs) must not depend on the number of pid digits
  base.join(format!("agsim-{:010}", std::process::id()))
}

pub fn reset_dir(p: &Path) {
  let _ = std::fs::remove_dir_all(p);
  std::fs::create_dir_all(p).expect("create sandbox");
}

/// Run the CLI with `args` (argv[0] included) in directory `dir`.
/// `hash_seed` seeds every HashMap of the run; `sched` puts its threads under the baton.
pub fn run_cli(dir: &Path, args: &[String], hash_seed: u64, sched: Option<SchedCfg>) -> CliOutcome {
  run_cli_opts(dir, args, hash_seed, sched, false)
}

/// `stdout_closed`: fd 1 is a pipe whose read end is already closed (every write is EPIPE).
pub fn run_cli_opts(dir: &Path, args: &[String], hash_seed: u64, sched: Option<SchedCfg>, stdout_closed: bool) -> CliOutcome {
  run_cli_full(dir, args, hash_seed, sched, stdout_closed, None)
}

/// `stdin`: bytes the command finds on fd 0 (for `--stdin`)
pub fn run_cli_full(dir: &Path, args: &[String], hash_seed: u64, sched: Option<SchedCfg>, stdout_closed: bool, stdin: Option<Vec<u8>>) -> CliOutcome {
  std::env::set_current_dir(dir).expect("chdir sandbox");
  hashseam::set_hash_seed(hash_seed);
  let cap_dir = scratch_root();
  let _ = std::fs::create_dir_all(&cap_dir);
  let out_path = cap_dir.join("stdout.cap");
  let err_path = cap_dir.join("stderr.cap");
  let in_path = cap_dir.join("stdin.dat");
  let args: Vec<String> = args.to_vec();
  let sched = sched.map(|c| Arc::new(Sched::new(c)));
  let sched2 = sched.clone();
  let handle = std::thread::Builder::new()
    .name("sim-consumer".into())
    .spawn(move || {
      hashseam::set_sim_tid(1);
      let _ = std::io::stdout().flush();
      let cap_out = if stdout_closed { FdCapture::start_closed_pipe(1, &out_path) } else { FdCapture::start(1, &out_path) };
      let cap_err = FdCapture::start(2, &err_path);
      // fd 0 is a pipe fed by a producer that is slower than the reader: the text arrives in 1-3
      // pieces, each written only after the one before was consumed, so every read returns at
      // most one piece (a short read in the middle of the input, as with `cmd | sg scan --stdin`).
      // Where the pieces end is a function of the text: the sequence of read results is fixed.
      let _ = &in_path;
      let feeder_stop = Arc::new(std::sync::atomic::AtomicBool::new(false));
      let mut feeder: Option<std::thread::JoinHandle<()>> = None;
      let saved_stdin = stdin.as_ref().map(|bytes| {
        let mut fds = [0i32; 2];
        assert_eq!(unsafe { libc::pipe(fds.as_mut_ptr()) }, 0, "pipe for stdin");
        let (rd, wr) = (fds[0], fds[1]);
        let saved = unsafe { libc::dup(0) };
        unsafe {
          libc::dup2(rd, 0);
          libc::close(rd);
        }
        let bytes = bytes.clone();
        let stop = feeder_stop.clone();
        feeder = Some(std::thread::spawn(move || {
          let n = 1 + (crate::rng::fnv1a(&bytes) % 3) as usize;
          let cuts: Vec<usize> = (0..=n).map(|i| bytes.len() * i / n).collect();
          'pieces: for w in cuts.windows(2) {
            let mut piece = &bytes[w[0]..w[1]];
            while !piece.is_empty() {
              let k = unsafe { libc::write(wr, piece.as_ptr() as *const libc::c_void, piece.len()) };
              if k <= 0 {
                break 'pieces; // reader gone
              }
              piece = &piece[k as usize..];
            }
            // wait until the reader has taken it
            loop {
              let mut pending: libc::c_int = 0;
              unsafe { libc::ioctl(wr, libc::FIONREAD, &mut pending) };
              if pending == 0 {
                break;
              }
              if stop.load(std::sync::atomic::Ordering::SeqCst) {
                break 'pieces;
              }
              std::thread::sleep(std::time::Duration::from_micros(100));
            }
          }
          unsafe { libc::close(wr) };
        }));
        saved
      });
      if let Some(s) = &sched2 {
        s.begin_consumer();
        ast_grep::verif::install(s.clone());
        agsim_sync::install_hooks(Some(s.clone()));
      }
      let r = std::panic::catch_unwind(std::panic::AssertUnwindSafe(|| ast_grep::main_with_args(args.into_iter())));
      let _ = std::io::stdout().flush();
      let sres = sched2.as_ref().map(|s| s.finish());
      ast_grep::verif::uninstall();
      agsim_sync::install_hooks(None);
      let _ = std::io::stdout().flush();
      let stdout = cap_out.finish();
      let stderr = cap_err.finish();
      if let Some(saved) = saved_stdin {
        feeder_stop.store(true, std::sync::atomic::Ordering::SeqCst);
        unsafe {
          libc::dup2(saved, 0);
          libc::close(saved);
        }
      }
      if let Some(f) = feeder {
        let _ = f.join();
      }
      let (result, consumer_panic) = match r {
        Ok(Ok(())) => (Ok(()), None),
        Ok(Err(e)) => (Err(format!("{e}")), None),
        Err(p) => (Err("panic".into()), Some(crate::driver::panic_msg(&p))),
      };
      CliOutcome { stdout, stderr, result, consumer_panic, sched: sres }
    })
    .expect("spawn consumer");
  match handle.join() {
    Ok(o) => o,
    Err(p) => CliOutcome {
      result: Err("harness thread panicked".into()),
      consumer_panic: Some(crate::driver::panic_msg(&p)),
      ..Default::default()
    },
  }
}

/// Silence the default panic hook for simulated threads (panics are recorded events).
pub fn quiet_panics() {
  // panics of simulated threads / the simulated server are recorded events; harness panics
  // are caught by the worker loop and reported as HARNESS-ERROR with their message
  std::panic::set_hook(Box::new(|_info| {}));
}
