//! C10 — editing a parsed document ≡ parsing the edited text.
//!
//! Single-node degenerate case of the technique: a stateful object (`AstGrep`) is driven
//! through a seeded operation history, compared step by step with a trivially correct
//! reference model (spliced `String` + fresh parse), with one injectable fault
//! (`Doc::parse` fails) through the existing trait seam. There is no schedule dimension
//! (`&mut self` API).

use crate::corpus::{self, LangCorpus};
use crate::driver::*;
use crate::rng::{fnv1a, Rng};
use crate::shrink;
use ast_grep_core::source::{Edit, TSParseError};
use ast_grep_core::{AstGrep, Doc, Language, Pattern, StrDoc};
use ast_grep_language::SupportLang;
use serde::{Deserialize, Serialize};
use serde_json::{json, Value};
use std::cell::{Cell, RefCell};
use std::rc::Rc;
use std::str::FromStr;
use tree_sitter as ts;

pub struct EditSim;

#[derive(Serialize, Deserialize, Clone, Debug, PartialEq)]
#[serde(tag = "op")]
pub enum Op {
  /// `AstGrep::edit(Edit{position,deleted_length,inserted_text})`
  Splice { pos: usize, del: usize, ins: String },
  /// `AstGrep::replace(pattern, fix)`
  Replace { pattern: String, fix: String },
  /// `AstGrep::replace(KindMatcher(kind of the root node), fix)`: the whole tree is replaced
  ReplaceRoot { fix: String },
  /// the next `Doc::parse` of the document under test returns `TreeUnavailable`
  ParseFault,
  /// the same thread works on an unrelated document in between: parses it, searches it and (for a
  /// host language) extracts and searches its embedded documents
  Bystander { lang: String, text: String },
}

#[derive(Serialize, Deserialize, Clone, Debug)]
pub struct World {
  pub lang: String,
  pub text: String,
  pub ops: Vec<Op>,
  pub faulting: bool,
  /// API flavour of this history: patterns are handed to the library as text, not as compiled objects
  #[serde(default)]
  pub by_str: bool,
}

// ---------------------------------------------------------------------------------------
// the fault seam: a Doc whose parse can be made to fail, otherwise production's StrDoc

#[derive(Clone)]
pub struct FaultDoc {
  inner: StrDoc<SupportLang>,
  fail_next: Rc<Cell<u32>>,
  /// text seen by the last parse attempt (the only generic way to observe the source)
  seen: Rc<RefCell<String>>,
}
impl Doc for FaultDoc {
  type Source = String;
  type Lang = SupportLang;
  fn get_lang(&self) -> &SupportLang {
    self.inner.get_lang()
  }
  fn get_source(&self) -> &String {
    self.inner.get_source()
  }
  fn get_source_mut(&mut self) -> &mut String {
    self.inner.get_source_mut()
  }
  fn parse(&self, old: Option<&ts::Tree>) -> Result<ts::Tree, TSParseError> {
    *self.seen.borrow_mut() = self.inner.get_source().clone();
    if self.fail_next.get() > 0 {
      self.fail_next.set(self.fail_next.get() - 1);
      return Err(TSParseError::TreeUnavailable);
    }
    // production's default `Doc::parse` on the wrapped StrDoc
    self.inner.parse(old)
  }
  fn clone_with_lang(&self, lang: SupportLang) -> Self {
    FaultDoc {
      inner: self.inner.clone_with_lang(lang),
      fail_next: self.fail_next.clone(),
      seen: self.seen.clone(),
    }
  }
  fn from_str(src: &str, lang: SupportLang) -> Self {
    FaultDoc {
      inner: StrDoc::new(src, lang),
      fail_next: Rc::new(Cell::new(0)),
      seen: Rc::new(RefCell::new(src.to_string())),
    }
  }
}

/// Document under test: production types in fault-free runs, the wrapper in faulting runs.
enum Sut {
  Plain(AstGrep<StrDoc<SupportLang>>),
  Faulty(AstGrep<FaultDoc>, Rc<Cell<u32>>, Rc<RefCell<String>>),
}

impl Sut {
  fn new(text: &str, lang: SupportLang, faulting: bool) -> Sut {
    if faulting {
      let d = FaultDoc::from_str(text, lang);
      let (f, s) = (d.fail_next.clone(), d.seen.clone());
      Sut::Faulty(AstGrep::doc(d), f, s)
    } else {
      Sut::Plain(AstGrep::new(text, lang))
    }
  }
  fn text(&self) -> String {
    match self {
      Sut::Plain(a) => a.source().to_string(),
      Sut::Faulty(_, _, s) => s.borrow().clone(),
    }
  }
  fn tree_dump(&self) -> Vec<NodeRec> {
    match self {
      Sut::Plain(a) => dump(a.root().get_ts_node()),
      Sut::Faulty(a, _, _) => dump(a.root().get_ts_node()),
    }
  }
  fn edit(&mut self, pos: usize, del: usize, ins: &str) -> Result<(), TSParseError> {
    match self {
      Sut::Plain(a) => a
        .edit(Edit {
          position: pos,
          deleted_length: del,
          inserted_text: ins.as_bytes().to_vec(),
        })
        .map(|_| ()),
      Sut::Faulty(a, _, _) => a
        .edit(Edit {
          position: pos,
          deleted_length: del,
          inserted_text: ins.as_bytes().to_vec(),
        })
        .map(|_| ()),
    }
  }
  /// `by_str`: the pattern is handed over as text (the library compiles it), not as a Pattern object
  fn replace(&mut self, p: &Pattern<SupportLang>, text: &str, by_str: bool, fix: &str) -> Result<bool, TSParseError> {
    match (self, by_str) {
      (Sut::Plain(a), false) => a.replace(p, fix),
      (Sut::Faulty(a, _, _), false) => a.replace(p, fix),
      (Sut::Plain(a), true) => a.replace(text, fix),
      (Sut::Faulty(a, _, _), true) => a.replace(text, fix),
    }
  }
  fn replace_kind(&mut self, kind: &str, lang: SupportLang, fix: &str) -> Result<bool, TSParseError> {
    let m = ast_grep_core::matcher::KindMatcher::new(kind, lang);
    match self {
      Sut::Plain(a) => a.replace(m, fix),
      Sut::Faulty(a, _, _) => a.replace(m, fix),
    }
  }
  fn find_ranges(&self, p: &Pattern<SupportLang>, text: &str, by_str: bool) -> Vec<(usize, usize)> {
    match (self, by_str) {
      (Sut::Plain(a), false) => a.root().find_all(p).map(|m| (m.range().start, m.range().end)).collect(),
      (Sut::Faulty(a, _, _), false) => a.root().find_all(p).map(|m| (m.range().start, m.range().end)).collect(),
      (Sut::Plain(a), true) => a.root().find_all(text).map(|m| (m.range().start, m.range().end)).collect(),
      (Sut::Faulty(a, _, _), true) => a.root().find_all(text).map(|m| (m.range().start, m.range().end)).collect(),
    }
  }
  fn arm_fault(&self) {
    if let Sut::Faulty(_, f, _) = self {
      f.set(1);
    }
  }
}

// ---------------------------------------------------------------------------------------
// tree dumps

#[derive(PartialEq, Eq, Clone, Debug)]
pub struct NodeRec {
  depth: u32,
  kind: u16,
  named: bool,
  missing: bool,
  sb: u32,
  eb: u32,
  sp: (u32, u32),
  ep: (u32, u32),
  children: u32,
  field: Option<String>,
}

pub fn dump(root: ts::Node) -> Vec<NodeRec> {
  let mut out = vec![];
  let mut cur = root.walk();
  let mut depth = 0u32;
  loop {
    let n = cur.node();
    let sp = n.start_position();
    let ep = n.end_position();
    out.push(NodeRec {
      depth,
      kind: n.kind_id(),
      named: n.is_named(),
      missing: n.is_missing(),
      sb: n.start_byte(),
      eb: n.end_byte(),
      sp: (sp.row(), sp.column()),
      ep: (ep.row(), ep.column()),
      children: n.child_count(),
      field: cur.field_name().map(|c| c.to_string()),
    });
    if cur.goto_first_child() {
      depth += 1;
      continue;
    }
    loop {
      if cur.goto_next_sibling() {
        break;
      }
      if !cur.goto_parent() {
        return out;
      }
      depth -= 1;
    }
  }
}

fn dump_hash(d: &[NodeRec]) -> u64 {
  let mut h = 0xcbf2_9ce4_8422_2325u64;
  for r in d {
    let s = format!("{r:?}");
    h = (h ^ fnv1a(s.as_bytes())).wrapping_mul(0x0000_0100_0000_01B3);
  }
  h
}

fn first_diff(a: &[NodeRec], b: &[NodeRec], lang: SupportLang) -> String {
  let tsl = lang.get_ts_language();
  let name = |r: &NodeRec| tsl.node_kind_for_id(r.kind).map(|c| c.to_string()).unwrap_or_default();
  for (i, (x, y)) in a.iter().zip(b.iter()).enumerate() {
    if x != y {
      return format!(
        "node #{i}: document has {}[{}..{}] @{:?}-{:?} children={} depth={}, fresh parse has {}[{}..{}] @{:?}-{:?} children={} depth={}",
        name(x), x.sb, x.eb, x.sp, x.ep, x.children, x.depth, name(y), y.sb, y.eb, y.sp, y.ep, y.children, y.depth
      );
    }
  }
  format!("node count differs: document {} vs fresh parse {}", a.len(), b.len())
}

// ---------------------------------------------------------------------------------------
// reference side: raw tree-sitter, used correctly and independently of ast-grep's code

fn point_at(text: &[u8], off: usize) -> ts::Point {
  let mut row = 0u32;
  let mut last_nl: Option<usize> = None;
  for (i, b) in text[..off].iter().enumerate() {
    if *b == b'\n' {
      row += 1;
      last_nl = Some(i);
    }
  }
  let col = match last_nl {
    Some(i) => off - i - 1,
    None => off,
  };
  ts::Point::new(row, col as u32)
}

struct RawTrack {
  lang: SupportLang,
  tree: ts::Tree,
}
impl RawTrack {
  fn parse(lang: SupportLang, text: &str, old: Option<&ts::Tree>) -> ts::Tree {
    let mut p = ts::Parser::new().expect("parser");
    p.set_language(&lang.get_ts_language()).expect("lang");
    p.parse(text.as_bytes(), old).expect("parse").expect("tree")
  }
  fn new(lang: SupportLang, text: &str) -> Self {
    RawTrack {
      lang,
      tree: Self::parse(lang, text, None),
    }
  }
  /// apply the edit to the old tree; re-parse unless `reparse` is false (parser fault)
  fn edit(&mut self, old_text: &str, new_text: &str, pos: usize, del: usize, ins_len: usize, reparse: bool) {
    let ie = ts::InputEdit::new(
      pos as u32,
      (pos + del) as u32,
      (pos + ins_len) as u32,
      &point_at(old_text.as_bytes(), pos),
      &point_at(old_text.as_bytes(), pos + del),
      &point_at(new_text.as_bytes(), pos + ins_len),
    );
    self.tree.edit(&ie);
    if reparse {
      self.tree = Self::parse(self.lang, new_text, Some(&self.tree));
    }
  }
}

// ---------------------------------------------------------------------------------------
// execution

#[derive(Default)]
pub struct Exec {
  pub events: Vec<String>,
  pub shape: Vec<String>,
  pub counters: Vec<(String, u64)>,
  pub clean_checks: u64,
  pub violation: Option<(String, String)>,
  pub lib_divergence: bool,
}
impl Exec {
  fn count(&mut self, k: &str) {
    if let Some(e) = self.counters.iter_mut().find(|e| e.0 == k) {
      e.1 += 1;
    } else {
      self.counters.push((k.to_string(), 1));
    }
  }
}

fn valid_splice(text: &str, pos: usize, del: usize) -> bool {
  pos <= text.len() && pos + del <= text.len() && text.is_char_boundary(pos) && text.is_char_boundary(pos + del)
}

/// Run a materialised world. `gen` (optional) extends the history on the fly: it is
/// called with the current model text when the recorded ops are exhausted.
pub fn execute(w: &mut World, mut gen: Option<(&mut Rng, usize)>) -> Exec {
  let mut ex = Exec::default();
  let lang = SupportLang::from_str(&w.lang).expect("language");
  let c = corpus::corpus(&w.lang);
  let probes: Vec<(Pattern<SupportLang>, &str)> = c.probes.iter().filter_map(|p| Pattern::try_new(p, lang).ok().map(|x| (x, *p))).collect();
  // API flavour of this history: patterns handed over as text or as compiled objects
  let by_str = w.by_str;
  let mut model = w.text.clone();
  let mut sut = Sut::new(&model, lang, w.faulting);
  let mut raw = RawTrack::new(lang, &model);
  let mut pending_fault = false;
  let mut was_dirty = false;
  ex.events.push(format!("init lang={} len={} h={:016x}", w.lang, model.len(), fnv1a(model.as_bytes())));
  let mut i = 0usize;
  loop {
    if i >= w.ops.len() {
      match gen.as_mut() {
        Some((rng, n)) if w.ops.len() < *n => {
          let op = gen_op(rng, &model, c, w.faulting);
          w.ops.push(op);
        }
        _ => break,
      }
    }
    let op = w.ops[i].clone();
    i += 1;
    // --- decide the concrete edit on the model side, independently of the document under test
    let (pos, del, ins, kind): (usize, usize, String, &str) = match &op {
      Op::ParseFault => {
        if w.faulting {
          pending_fault = true;
          sut.arm_fault();
          ex.events.push("arm-fault".into());
        }
        continue;
      }
      Op::Bystander { lang: other, text } => {
        let n = bystander(other, text);
        ex.events.push(format!("bystander lang={other} docs={n}"));
        ex.count("probe:unrelated_document_handled_in_between");
        continue;
      }
      Op::Splice { pos, del, ins } => {
        if !valid_splice(&model, *pos, *del) {
          ex.events.push("skip-invalid-splice".into());
          continue;
        }
        (*pos, *del, ins.clone(), "splice")
      }
      Op::Replace { pattern, fix } => {
        if was_dirty {
          // the document's tree is stale (failed parse) or an error-recovery tree: a search on
          // it may legitimately pick another node than a fresh parse; clients re-sync by a
          // plain edit first, and so does the simulated client
          ex.events.push("skip-replace-on-dirty".into());
          ex.count("probe:replace_skipped_on_dirty_state");
          continue;
        }
        let Ok(p) = Pattern::try_new(pattern, lang) else {
          ex.events.push("skip-bad-pattern".into());
          continue;
        };
        // what a fresh parse of the model text says the replacement is
        let fresh = AstGrep::new(&model, lang);
        let Some(e) = fresh.root().replace(&p, fix.as_str()) else {
          // no match on the model: the document must agree
          let r = match std::panic::catch_unwind(std::panic::AssertUnwindSafe(|| sut.replace(&p, pattern, by_str, fix))) {
            Ok(r) => r,
            Err(pm) => {
              ex.violation = Some(("PANIC".into(), format!("step {i}: the library panicked in replace({pattern:?}): {}", crate::driver::panic_msg(&pm))));
              return ex;
            }
          };
          ex.events.push(format!("replace-nomatch sut={r:?}"));
          if !matches!(r, Ok(false)) {
            ex.violation = Some((
              "REPLACE-MISMATCH".into(),
              format!("step {i}: replace({pattern:?}) matched on the edited document but not on a fresh parse of the same (error-free) text"),
            ));
            return ex;
          }
          continue;
        };
        let ins = String::from_utf8(e.inserted_text.clone()).expect("utf8 replacement");
        // the replacement itself, against a model of the template that knows nothing about
        // indentation: same non-blank characters, same number of lines
        if let Some(want) = expand_template(&fresh, &p, fix, e.position, e.deleted_length) {
          ex.count("probe:replacement_text_compared_with_template_model");
          if want.contains('\n') {
            ex.count("probe:replacement_text_multi_line");
          }
          let squeeze = |t: &str| t.chars().filter(|c| !c.is_whitespace()).collect::<String>();
          if squeeze(&want) != squeeze(&ins) || want.matches('\n').count() != ins.matches('\n').count() {
            ex.violation = Some((
              "REPLACEMENT-TEXT".into(),
              format!("step {i}: replace({pattern:?}, {fix:?}) writes {:?}; the template with its variables filled in is {:?} (compared without blanks, and by line count)", truncate(&ins, 80), truncate(&want, 80)),
            ));
            return ex;
          }
        }
        if let Some(want) = model_replacement(&fresh, &p, fix, e.position) {
          ex.count("probe:replacement_text_compared_with_indentation_model");
          if want != ins {
            ex.violation = Some((
              "REPLACEMENT-INDENT".into(),
              format!("step {i}: replace({pattern:?}, {fix:?}) writes {:?}; the reference model of the template (variables moved to the indentation of their template line, the whole to that of the matched line) gives {:?}", truncate(&ins, 120), truncate(&want, 120)),
            ));
            return ex;
          }
        }
        // the replaced span, against the pattern with its variables filled in: what the pattern does
        // not spell out (apart from punctuation the matcher may skip) must stay in the document
        if let Some(spelled) = expand_template(&fresh, &p, pattern, e.position, usize::MAX) {
          let squeeze = |t: &str| t.chars().filter(|c| !c.is_whitespace()).collect::<Vec<char>>();
          let (want, got) = (squeeze(&spelled), squeeze(&model[e.position..e.position + e.deleted_length]));
          let mut j = 0;
          let mut extra = String::new();
          for c in &got {
            if j < want.len() && *c == want[j] {
              j += 1;
            } else {
              extra.push(*c);
            }
          }
          if j == want.len() {
            ex.count("probe:replaced_span_compared_with_pattern_model");
            if extra.chars().any(|c| c.is_alphanumeric()) {
              ex.violation = Some((
                "REPLACED-SPAN".into(),
                format!("step {i}: replace({pattern:?}, ..) deletes {:?}, the pattern with its variables filled in is only {:?}", truncate(&model[e.position..e.position + e.deleted_length], 80), truncate(&spelled, 80)),
              ));
              return ex;
            }
          }
        }
        (e.position, e.deleted_length, ins, "replace")
      }
      Op::ReplaceRoot { fix } => {
        if was_dirty {
          ex.events.push("skip-replace-on-dirty".into());
          continue;
        }
        // what a fresh parse of the model text says the replacement of its root node is (the
        // root starts at the first token, not at byte 0)
        let fresh = AstGrep::new(&model, lang);
        let kind = fresh.root().kind().to_string();
        let m = ast_grep_core::matcher::KindMatcher::new(&kind, lang);
        let Some(e) = fresh.root().replace(m, fix.as_str()) else {
          ex.events.push("replace-root-nomatch".into());
          continue;
        };
        let ins = String::from_utf8(e.inserted_text.clone()).expect("utf8 replacement");
        let r = e.position..e.position + e.deleted_length;
        (r.start, r.end - r.start, ins, "replace-root")
      }
    };
    let old_model = model.clone();
    let old_model_for_kind = model.clone();
    let mut new_model = String::with_capacity(model.len() + ins.len());
    new_model.push_str(&model[..pos]);
    new_model.push_str(&ins);
    new_model.push_str(&model[pos + del..]);

    // --- apply to the document under test through the public API
    let res = std::panic::catch_unwind(std::panic::AssertUnwindSafe(|| match &op {
      Op::Splice { .. } => sut.edit(pos, del, &ins).map(|_| true),
      Op::Replace { pattern, fix } => {
        let p = Pattern::try_new(pattern, lang).unwrap();
        sut.replace(&p, pattern, by_str, fix)
      }
      Op::ReplaceRoot { fix } => {
        let kind = AstGrep::new(&old_model_for_kind, lang).root().kind().to_string();
        sut.replace_kind(&kind, lang, fix)
      }
      Op::ParseFault | Op::Bystander { .. } => unreachable!(),
    }));
    let res = match res {
      Ok(r) => r,
      Err(p) => {
        ex.violation = Some(("PANIC".into(), format!("step {i}: the library panicked while applying {kind} pos={pos} del={del}: {}", crate::driver::panic_msg(&p))));
        return ex;
      }
    };
    let faulted = pending_fault;
    pending_fault = false;
    let lines_delta = ins.matches('\n').count() as i64 - old_model[pos..pos + del].matches('\n').count() as i64;
    let multibyte = !ins.is_ascii() || !old_model[pos..pos + del].is_ascii();
    let tag = format!(
      "{kind}{}{}",
      if lines_delta > 0 { "+L" } else if lines_delta < 0 { "-L" } else { "" },
      if multibyte { "+U" } else { "" }
    );
    match res {
      Err(_) if faulted => {
        // injected parser failure: the text must be old or new, never anything else;
        // the model follows what is observed
        ex.count("fault:parser-unavailable");
        let seen = sut.text();
        if seen == new_model {
          raw.edit(&old_model, &new_model, pos, del, ins.len(), false);
          model = new_model;
          ex.events.push(format!("{tag} fault->new"));
        } else if seen == old_model {
          ex.events.push(format!("{tag} fault->old"));
        } else {
          ex.violation = Some((
            "TEXT-CORRUPT-AFTER-FAULT".into(),
            format!("step {i}: after a failed parse the document text is neither the old nor the new text"),
          ));
          return ex;
        }
        ex.shape.push(format!("{tag}:fault"));
        was_dirty = true; // tree is stale until the next successful parse
        continue;
      }
      Err(e) => {
        ex.violation = Some(("EDIT-ERROR".into(), format!("step {i}: edit returned an error without an injected fault: {e}")));
        return ex;
      }
      Ok(false) => {
        ex.violation = Some((
          "REPLACE-MISMATCH".into(),
          format!("step {i}: replace found no match on the edited document although a fresh parse of the same (error-free) text has one"),
        ));
        return ex;
      }
      Ok(true) => {
        if faulted {
          // armed fault not consumed (cannot happen: every edit parses) — disarm
          if let Sut::Faulty(_, f, _) = &sut {
            f.set(0);
          }
        }
      }
    }
    raw.edit(&old_model, &new_model, pos, del, ins.len(), true);
    model = new_model;

    // --- oracle
    let seen = sut.text();
    if seen != model {
      ex.violation = Some((
        "TEXT-MISMATCH".into(),
        format!(
          "step {i}: document text differs from the spliced text (len {} vs {}), edit pos={pos} del={del} ins={:?}",
          seen.len(),
          model.len(),
          truncate(&ins, 40)
        ),
      ));
      return ex;
    }
    let fresh_tree = RawTrack::parse(lang, &model, None);
    let clean = !fresh_tree.root_node().has_error();
    let fresh_dump = dump(fresh_tree.root_node());
    let sut_dump = sut.tree_dump();
    let raw_dump = dump(raw.tree.root_node());
    ex.events.push(format!(
      "{tag} pos={pos} del={del} ins={} clean={clean} sut={:016x} fresh={:016x} raw={:016x}",
      ins.len(),
      dump_hash(&sut_dump),
      dump_hash(&fresh_dump),
      dump_hash(&raw_dump)
    ));
    ex.shape.push(format!("{tag}:{}", if clean { "clean" } else { "dirty" }));
    if clean {
      ex.clean_checks += 1;
      if was_dirty {
        ex.count("probe:clean_after_dirty_or_fault");
      }
      if lines_delta != 0 {
        ex.count("probe:edit_changed_line_count");
      }
      if multibyte {
        ex.count("probe:edit_touched_multibyte");
      }
      if sut_dump != fresh_dump {
        if raw_dump != fresh_dump {
          // the parser library itself disagrees with a fresh parse under correct use:
          // not ast-grep's doing; stop this history here (trees have legitimately forked)
          ex.count("probe:parser_library_divergence");
          ex.lib_divergence = true;
          return ex;
        }
        ex.violation = Some((
          "TREE-MISMATCH".into(),
          format!(
            "step {i}: after {kind} pos={pos} del={del} ins={:?} the document's tree differs from a fresh parse of the same (error-free) text, while raw tree-sitter used correctly agrees with the fresh parse; {}",
            truncate(&ins, 40),
            first_diff(&sut_dump, &fresh_dump, lang)
          ),
        ));
        return ex;
      }
      // later searches see what a fresh parse would see
      let fresh_ag = AstGrep::new(&model, lang);
      for (pi, (p, ptext)) in probes.iter().enumerate() {
        // (a pattern given as text is compiled once per visited node: one such search per step)
        let a = match std::panic::catch_unwind(std::panic::AssertUnwindSafe(|| sut.find_ranges(p, ptext, by_str && pi == 0))) {
          Ok(a) => a,
          Err(pm) => {
            ex.violation = Some(("PANIC".into(), format!("step {i}: find_all on the edited document panicked: {}", crate::driver::panic_msg(&pm))));
            return ex;
          }
        };
        let b: Vec<(usize, usize)> = fresh_ag.root().find_all(p).map(|m| (m.range().start, m.range().end)).collect();
        if a != b {
          ex.violation = Some((
            "SEARCH-MISMATCH".into(),
            format!("step {i}: find_all on the edited document returns {a:?}, on a fresh parse {b:?}"),
          ));
          return ex;
        }
      }
      was_dirty = false;
    } else {
      ex.count("probe:dirty_state_visited");
      if sut_dump != raw_dump {
        ex.count("probe:dirty_state_differs_from_raw");
      }
      was_dirty = true;
    }
  }
  ex
}

/// Work of the same thread on another document (no state of it may leak into the document under test).
fn bystander(lang: &str, text: &str) -> usize {
  let Ok(l) = SupportLang::from_str(lang) else { return 0 };
  let other = AstGrep::new(text, l);
  let mut n = other.root().dfs().count().min(1);
  // searched with patterns given as text; several languages share pattern texts such as `$A + $B`
  for p in corpus::corpus(lang).rewrites.iter().map(|x| &x.0).take(2) {
    if Pattern::try_new(p, l).is_ok() {
      n += other.root().find_all(*p).count().min(1);
    }
  }
  let docs = other.inner.get_injections(|s| SupportLang::from_str(s).ok());
  for d in &docs {
    n += d.root().dfs().count().min(1);
  }
  n
}

/// Indentation as the replacer sees it: the blanks right after the start of the line that holds
/// the offset (within the last 512 bytes; a first line counts only if it is reached).
fn model_indent_at(prefix: &str) -> usize {
  let b = prefix.as_bytes();
  let look = b.len().max(512) - 512;
  let mut n = 0usize;
  for c in b[look..].iter().rev() {
    match *c {
      b'\n' => return n,
      b' ' => n += 1,
      _ => n = 0,
    }
  }
  if look == 0 {
    n
  } else {
    0
  }
}

/// A multi-line text moved from indentation `from` to indentation `to`.
fn model_reindent(text: &str, from: usize, to: usize) -> String {
  use std::cmp::Ordering::*;
  match from.cmp(&to) {
    Equal => text.to_string(),
    Greater => {
      let pad = " ".repeat(from - to);
      text.split('\n').map(|l| l.strip_prefix(pad.as_str()).unwrap_or(l)).collect::<Vec<_>>().join("\n")
    }
    Less => {
      let pad = " ".repeat(to - from);
      let mut it = text.split('\n');
      let mut out = it.next().unwrap_or("").to_string();
      for l in it {
        out.push('\n');
        out.push_str(&pad);
        out.push_str(l);
      }
      out
    }
  }
}

/// Reference model of a template replacement, indentation included (single `$VAR`s only): every
/// variable's text is moved from the indentation of the line it starts on to the indentation of
/// its line in the template, and the whole is moved to the indentation of the matched line.
fn model_replacement(fresh: &AstGrep<StrDoc<SupportLang>>, p: &Pattern<SupportLang>, fix: &str, pos: usize) -> Option<String> {
  let nm = fresh.root().find(p)?;
  if nm.range().start != pos {
    return None;
  }
  let src = fresh.source();
  let env = nm.get_env();
  let mut out = String::new();
  let fb = fix.as_bytes();
  let mut i = 0;
  while i < fb.len() {
    let multi = fix[i..].starts_with("$$$");
    let name_at = if multi { i + 3 } else { i + 1 };
    if fb[i] == b'$' && name_at < fb.len() && (fb[name_at].is_ascii_uppercase() || fb[name_at] == b'_') {
      let mut j = name_at;
      while j < fb.len() && (fb[j].is_ascii_uppercase() || fb[j].is_ascii_digit() || fb[j] == b'_') {
        j += 1;
      }
      // `$$$NAME`: from the first to the last captured node, separators and all
      let r = if multi {
        let nodes = env.get_multiple_matches(&fix[name_at..j]);
        match (nodes.first(), nodes.last()) {
          (Some(a), Some(b)) => a.range().start..b.range().end,
          _ => {
            i = j;
            continue;
          }
        }
      } else {
        env.get_match(&fix[name_at..j])?.range()
      };
      let text = &src[r.clone()];
      if text.contains('\n') {
        out.push_str(&model_reindent(text, model_indent_at(&src[..r.start]), model_indent_at(&fix[..i])));
      } else {
        out.push_str(text);
      }
      i = j;
    } else {
      let ch = fix[i..].chars().next().unwrap();
      out.push(ch);
      i += ch.len_utf8();
    }
  }
  Some(model_reindent(&out, 0, model_indent_at(&src[..pos])))
}

/// The fix template with every `$VAR` replaced by the text the variable matched on a fresh parse;
/// None when the template has other kinds of variables or the match is not the edited range.
fn expand_template(fresh: &AstGrep<StrDoc<SupportLang>>, p: &Pattern<SupportLang>, fix: &str, pos: usize, del: usize) -> Option<String> {
  if fix.contains("$$") {
    return None;
  }
  let nm = fresh.root().find(p)?;
  let r = nm.range();
  // (`del == usize::MAX`: only the start has to agree)
  if r.start != pos || (del != usize::MAX && r.end - r.start != del) {
    return None;
  }
  let env = nm.get_env();
  let mut out = String::new();
  let cs: Vec<char> = fix.chars().collect();
  let mut i = 0;
  while i < cs.len() {
    if cs[i] == '$' && i + 1 < cs.len() && (cs[i + 1].is_ascii_uppercase() || cs[i + 1] == '_') {
      let mut j = i + 1;
      while j < cs.len() && (cs[j].is_ascii_uppercase() || cs[j].is_ascii_digit() || cs[j] == '_') {
        j += 1;
      }
      let name: String = cs[i + 1..j].iter().collect();
      out.push_str(&env.get_match(&name)?.text());
      i = j;
    } else {
      out.push(cs[i]);
      i += 1;
    }
  }
  Some(out)
}

fn truncate(s: &str, n: usize) -> String {
  if s.chars().count() <= n {
    s.to_string()
  } else {
    let t: String = s.chars().take(n).collect();
    format!("{t}…")
  }
}

// ---------------------------------------------------------------------------------------
// generation

fn line_starts(text: &str) -> Vec<usize> {
  let mut v = vec![0];
  for (i, b) in text.bytes().enumerate() {
    if b == b'\n' && i + 1 <= text.len() {
      v.push(i + 1);
    }
  }
  v
}

fn char_boundary_near(text: &str, mut p: usize) -> usize {
  p = p.min(text.len());
  while !text.is_char_boundary(p) {
    p -= 1;
  }
  p
}

fn words(text: &str) -> Vec<(usize, usize)> {
  let mut out = vec![];
  let mut start: Option<usize> = None;
  for (i, ch) in text.char_indices() {
    let w = ch.is_alphanumeric() || ch == '_';
    match (w, start) {
      (true, None) => start = Some(i),
      (false, Some(s)) => {
        out.push((s, i));
        start = None;
      }
      _ => {}
    }
  }
  if let Some(s) = start {
    out.push((s, text.len()));
  }
  out
}

pub fn gen_op(rng: &mut Rng, model: &str, c: &LangCorpus, faulting: bool) -> Op {
  if faulting && rng.chance(0.18) {
    return Op::ParseFault;
  }
  if rng.chance(0.06) {
    // an unrelated document on the same thread; host documents with embedded languages often
    let other = if rng.chance(0.6) { "Html" } else { corpus::CORPORA[rng.below(corpus::CORPORA.len())].lang };
    let oc = corpus::corpus(other);
    let mut text = String::new();
    for _ in 0..rng.range(1, 5) {
      text.push_str(*rng.pick(oc.snippets));
      text.push('\n');
    }
    return Op::Bystander { lang: other.to_string(), text };
  }
  let ls = line_starts(model);
  let roll = rng.below(100);
  match roll {
    // as many bytes, another line layout: a line break becomes a blank, or a blank a line break
    0..=3 => {
      let bytes = model.as_bytes();
      let want = if rng.chance(0.6) { b'\n' } else { b' ' };
      let cands: Vec<usize> = (0..bytes.len()).filter(|&k| bytes[k] == want).collect();
      if cands.is_empty() {
        return Op::Splice { pos: 0, del: 0, ins: "\n".into() };
      }
      let pos = *rng.pick(&cands);
      Op::Splice { pos, del: 1, ins: if want == b'\n' { " ".into() } else { "\n".into() } }
    }
    // insert a whole snippet at a line boundary (keeps the text clean most of the time)
    4..=24 => {
      let pos = *rng.pick(&ls);
      let mut ins = rng.pick(c.snippets).to_string();
      ins.push('\n');
      Op::Splice { pos, del: 0, ins }
    }
    // delete 1..3 whole lines
    25..=36 if ls.len() > 1 => {
      let a = rng.below(ls.len() - 1);
      let b = (a + rng.range(1, 3)).min(ls.len() - 1);
      Op::Splice {
        pos: ls[a],
        del: ls[b] - ls[a],
        ins: String::new(),
      }
    }
    // replace an identifier/number by another word (multi-byte now and then)
    37..=56 => {
      let ws = words(model);
      if ws.is_empty() {
        return Op::Splice { pos: 0, del: 0, ins: "x\n".into() };
      }
      let (s, e) = *rng.pick(&ws);
      Op::Splice {
        pos: s,
        del: e - s,
        ins: rng.pick(corpus::WORDS).to_string(),
      }
    }
    // the whole tree replaced through AstGrep::replace with a kind matcher for the root
    57..=59 => Op::ReplaceRoot { fix: rng.pick(c.snippets).to_string() },
    // a real match replaced through AstGrep::replace
    60..=74 => {
      let (p, f) = *rng.pick(c.rewrites);
      Op::Replace {
        pattern: p.to_string(),
        fix: f.to_string(),
      }
    }
    // re-layout: an existing run of blanks is replaced by another run of blanks
    75..=80 => {
      let bytes = model.as_bytes();
      let mut runs: Vec<(usize, usize)> = vec![];
      let mut i = 0;
      while i < bytes.len() {
        if matches!(bytes[i], b' ' | b'\t' | b'\n' | b'\r') {
          let st = i;
          while i < bytes.len() && matches!(bytes[i], b' ' | b'\t' | b'\n' | b'\r') {
            i += 1;
          }
          runs.push((st, i));
        } else {
          i += 1;
        }
      }
      if runs.is_empty() {
        return Op::Splice { pos: 0, del: 0, ins: "\n".into() };
      }
      let (st, en) = *rng.pick(&runs);
      // the whole run or a part of it
      let (st, en) = if rng.chance(0.5) || en - st < 2 { (st, en) } else { (st + 1, en) };
      let ins = *rng.pick(&[" ", "\n", "  ", "\n    ", "\t", "\n\n", "\r\n", "\n  ", "    "]);
      Op::Splice { pos: st, del: en - st, ins: ins.to_string() }
    }
    // arbitrary fragment at an arbitrary character boundary (often makes the text dirty)
    81..=84 => {
      let pos = char_boundary_near(model, rng.below(model.len() + 1));
      Op::Splice {
        pos,
        del: 0,
        ins: rng.pick(corpus::FRAGMENTS).to_string(),
      }
    }
    // arbitrary deletion of 1..12 bytes on character boundaries
    85..=92 if !model.is_empty() => {
      let pos = char_boundary_near(model, rng.below(model.len()));
      let end = char_boundary_near(model, (pos + rng.range(1, 12)).min(model.len()));
      Op::Splice {
        pos,
        del: end.saturating_sub(pos),
        ins: String::new(),
      }
    }
    // replace a span crossing node/line boundaries by a snippet
    _ => {
      let a = rng.below(ls.len());
      let pos = ls[a];
      let end = char_boundary_near(model, (pos + rng.range(0, 40)).min(model.len()));
      Op::Splice {
        pos,
        del: end.saturating_sub(pos),
        ins: rng.pick(c.snippets).to_string(),
      }
    }
  }
}

fn gen_world(seed: u64) -> (World, Rng, usize) {
  let mut wr = Rng::stream(seed, "world");
  let c = &corpus::CORPORA[wr.below(corpus::CORPORA.len())];
  let n = wr.range(1, 14);
  let crlf = wr.chance(0.1);
  let mut text = corpus::make_doc(&mut wr, c, n, crlf);
  if wr.chance(0.15) && !matches!(c.lang, "Python" | "Yaml" | "Haskell") {
    // a document that does not start with a token
    text = format!("{}{text}", wr.pick(&["\n", "\n\n", "  ", "\n  "]));
  }
  let mut fr = Rng::stream(seed, "fault");
  let faulting = fr.chance(0.35);
  let nops = wr.range(1, 12);
  (
    World {
      lang: c.lang.to_string(),
      text,
      ops: vec![],
      faulting,
      by_str: Rng::stream(seed, "api").chance(0.3),
    },
    wr,
    nops,
  )
}

fn hash_events(ev: &[String]) -> u64 {
  let mut h = 0xcbf2_9ce4_8422_2325u64;
  for e in ev {
    h = (h ^ fnv1a(e.as_bytes())).wrapping_mul(0x0000_0100_0000_01B3);
  }
  h
}

fn class_of(w: &World) -> Option<String> {
  let mut w2 = w.clone();
  execute(&mut w2, None).violation.map(|v| v.0)
}

impl Simulation for EditSim {
  fn id(&self) -> &'static str {
    "C10"
  }
  fn tier(&self, name: &str) -> TierCfg {
    if name == "thorough" {
      TierCfg { name: "thorough".into(), max_runs: 3_000_000, secs: 600 }
    } else {
      TierCfg { name: "quick".into(), max_runs: 48_000, secs: 100 }
    }
  }
  fn run(&self, seed: u64, _tier: &str, _known: &KnownFindings) -> RunReport {
    crate::cli_run::quiet_panics();
    let (mut w, mut rng, nops) = gen_world(seed);
    // fresh thread = fresh hash keys (a function of the run seed), independent of what this
    // worker process ran before
    crate::hashseam::set_per_thread(false);
    crate::hashseam::set_hash_seed(crate::rng::mix64(seed ^ 0x4331_30));
    let ex = std::thread::scope(|sc| sc.spawn(|| execute(&mut w, Some((&mut rng, nops)))).join()).unwrap_or_else(|p| panic!("history thread panicked: {}", crate::driver::panic_msg(&p)));
    let mut r = RunReport::default();
    r.event_hash = hash_events(&ex.events);
    let shape = format!("{}|{}|{}", w.lang, w.faulting, ex.shape.join(","));
    r.shape_hash = fnv1a(shape.as_bytes());
    r.nontrivial = ex.clean_checks > 0;
    r.steps = ex.events.len() as u64;
    for (k, v) in &ex.counters {
      r.add(k, *v);
    }
    r.count(if w.faulting { "policy:fault-injecting" } else { "policy:fault-free" });
    r.count(if w.by_str { "policy:patterns-as-text" } else { "policy:patterns-as-objects" });
    r.add("probe:clean_state_compared", ex.clean_checks);
    if let Some((class, detail)) = ex.violation {
      // minimise: drop ops, then shrink the initial text by lines, then simplify inserted texts
      let cls = class.clone();
      let mut best = w.clone();
      best.ops = shrink::ddmin(&best.ops, |ops| {
        let mut c = best_with(&w, ops);
        execute(&mut c, None).violation.map(|v| v.0) == Some(cls.clone())
      });
      let lines: Vec<String> = best.text.split_inclusive('\n').map(|s| s.to_string()).collect();
      let ops_fixed = best.ops.clone();
      let lang = best.lang.clone();
      let faulting = best.faulting;
      // shrinking the text shifts positions; only keep removals that preserve the class
      let kept = shrink::ddmin(&lines, |ls| {
        let removed_prefix = 0usize;
        let _ = removed_prefix;
        let w2 = World { lang: lang.clone(), text: ls.concat(), ops: ops_fixed.clone(), faulting, by_str: best.by_str };
        class_of(&w2) == Some(cls.clone())
      });
      best.text = kept.concat();
      let mut check = best.clone();
      let ex2 = execute(&mut check, None);
      let (class2, detail2) = ex2.violation.clone().unwrap_or((class.clone(), detail.clone()));
      let doc = json!({
        "world": best,
        "event_hash": format!("{:016x}", hash_events(&ex2.events)),
        "original_ops": w.ops.len(),
        "minimised_ops": check.ops.len(),
      });
      r.violation = Some((class2, detail2, doc));
    }
    if seed % 997 == 0 || r.sample.is_none() && (seed & 0x3ff) == 0 {
      r.sample = Some(json!({"lang": w.lang, "faulting": w.faulting, "initial_text": truncate(&w.text, 200), "ops": w.ops.iter().take(6).collect::<Vec<_>>(), "trace": ex.shape}));
    }
    r
  }
  fn replay(&self, doc: &Value, _known: &KnownFindings) -> ReplayOutcome {
    crate::cli_run::quiet_panics();
    let w: World = match serde_json::from_value(doc["world"].clone()) {
      Ok(w) => w,
      Err(e) => {
        return ReplayOutcome { reproduced: false, class: "".into(), detail: format!("cannot read world: {e}"), event_hash: 0 };
      }
    };
    let mut w = w;
    let ex = execute(&mut w, None);
    let h = hash_events(&ex.events);
    match ex.violation {
      Some((c, d)) => ReplayOutcome { reproduced: true, class: c, detail: d, event_hash: h },
      None => ReplayOutcome { reproduced: false, class: "".into(), detail: "history ran clean".into(), event_hash: h },
    }
  }
  fn describe(&self) -> Describe {
    Describe {
      rule: "a case = (language out of 21, document of 1-14 corpus snippets, optionally starting with blanks or CRLF, history of 1-12 operations: snippet insert, line delete, identifier replace incl. multi-byte, AstGrep::replace from real matches, AstGrep::replace of the root node by a kind matcher, re-layout (a run of blanks replaced by another), same-length edits that turn a line break into a blank and back, arbitrary fragment insert/delete at char boundaries, span replace, injected Doc::parse failure, bystander steps in which the same thread parses and searches an unrelated document and its embedded documents; patterns handed to the library as compiled objects or, in 30% of the histories, as text); after every successful operation whose text parses without ERROR/MISSING the document text, full DFS dump (kind id, named, missing, byte range, row/col points, child count, field name) and find_all of probe patterns are compared with a fresh parse made by a parser object of its own; every replacement is also compared with a reference model of the template (variables of a fresh parse moved to the indentation of their template line, the whole to that of the matched line) and the replaced span with the pattern spelled out; non-trivial = at least one such clean-state comparison happened; distinct = projected trace (language, faulting?, per-op (kind, line-count change, multi-byte, clean/dirty/fault)) not seen before".into(),
      assumptions: vec![
        "tree-sitter itself is trusted: when raw tree-sitter used with independently computed InputEdits also disagrees with a fresh parse, the case is counted as parser_library_divergence and the history stops there".into(),
        "texts that do not parse cleanly are not compared (the property quantifies over error-free results); they are still traversed as intermediate states".into(),
        "no concurrency dimension exists for this property (&mut self API); the simulation contributes the history quantifier and one fault kind only".into(),
      ],
      real: vec!["AstGrep::edit".into(), "AstGrep::replace".into(), "Root::do_edit".into(), "perform_edit".into(), "String::accept_edit".into(), "Doc::parse (default impl on StrDoc)".into(), "tree-sitter and the 10 grammars".into(), "Pattern/find_all".into()],
      stub: vec!["FaultDoc wrapper around StrDoc in fault-injecting runs only (forwards to StrDoc::parse unless a failure is armed)".into()],
      time_unit: "n/a (no clocks in this code path); steps = operations applied".into(),
    }
  }
}

fn best_with(w: &World, ops: &[Op]) -> World {
  World { lang: w.lang.clone(), text: w.text.clone(), ops: ops.to_vec(), faulting: w.faulting, by_str: w.by_str }
}
