//! The hash-seed seam: std's `RandomState` fetches its keys once per thread through the
//! weak libc symbol `getrandom`. Defining it here interposes it for the whole process, so
//! every HashMap/HashSet/DashMap iteration order in every crate becomes a pure function of
//! (hash seed of the current simulated run, simulated thread id, per-thread call index).

use crate::rng::mix64;
use std::cell::Cell;
use std::sync::atomic::{AtomicU64, Ordering};

static HASH_SEED: AtomicU64 = AtomicU64::new(0);
static CALLS: AtomicU64 = AtomicU64::new(0);
static TRACE: std::sync::atomic::AtomicBool = std::sync::atomic::AtomicBool::new(false);

static TRACE_FD: AtomicU64 = AtomicU64::new(2);

pub fn enable_trace(on: bool) {
  if on {
    let p = std::ffi::CString::new("/tmp/getrandom.trace").unwrap();
    let fd = unsafe { libc::open(p.as_ptr(), libc::O_WRONLY | libc::O_CREAT | libc::O_APPEND, 0o644) };
    if fd >= 0 {
      TRACE_FD.store(fd as u64, Ordering::Relaxed);
    }
  }
  TRACE.store(on, Ordering::Relaxed);
}
static PER_THREAD: std::sync::atomic::AtomicBool = std::sync::atomic::AtomicBool::new(true);

/// `false`: every thread of the run gets the same keys (C17/C18 hold the hash dimension
/// fixed; C13 varies it per thread like real process launches do).
pub fn set_per_thread(on: bool) {
  PER_THREAD.store(on, Ordering::SeqCst);
}

thread_local! {
  static SIM_TID: Cell<u64> = const { Cell::new(0) };
  static COUNTER: Cell<u64> = const { Cell::new(0) };
}

/// Set the hash seed of the simulated run ("process launch"). Only threads started after
/// this call (fresh thread-local keys) observe it.
pub fn set_hash_seed(seed: u64) {
  HASH_SEED.store(seed, Ordering::SeqCst);
}
/// Identify the calling thread to the seam (simulated thread id; foreign threads are 0).
pub fn set_sim_tid(tid: u64) {
  SIM_TID.with(|t| t.set(tid));
  COUNTER.with(|c| c.set(0));
}
pub fn calls() -> u64 {
  CALLS.load(Ordering::Relaxed)
}

#[no_mangle]
pub unsafe extern "C" fn getrandom(buf: *mut u8, len: usize, _flags: u32) -> isize {
  CALLS.fetch_add(1, Ordering::Relaxed);
  let seed = HASH_SEED.load(Ordering::SeqCst);
  let per_thread = PER_THREAD.load(Ordering::SeqCst);
  let tid = if per_thread { SIM_TID.try_with(|t| t.get()).unwrap_or(0) } else { 0 };
  let ctr = COUNTER
    .try_with(|c| {
      let v = c.get();
      c.set(v + 1);
      v
    })
    .unwrap_or(0);
  let ctr = if per_thread { ctr } else { 0 };
  if TRACE.load(Ordering::Relaxed) {
    // debugging aid (AGSIM_TRACE_GETRANDOM): raw write, no allocation-dependent formatting
    let name = std::thread::current().name().unwrap_or("?").to_string();
    let line = format!("GETRANDOM seed={seed:016x} tid={tid} ctr={ctr} len={len} thread={name}\n");
    libc::write(TRACE_FD.load(Ordering::Relaxed) as i32, line.as_ptr() as *const libc::c_void, line.len());
  }
  let mut s = mix64(seed ^ mix64(tid.wrapping_mul(0x9E37_79B9_7F4A_7C15) ^ ctr.wrapping_mul(0xD6E8_FEB8_6659_FD93)));
  let mut i = 0usize;
  while i < len {
    s = mix64(s);
    let bytes = s.to_le_bytes();
    let n = (len - i).min(8);
    std::ptr::copy_nonoverlapping(bytes.as_ptr(), buf.add(i), n);
    i += n;
  }
  len as isize
}
