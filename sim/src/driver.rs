//! Batch driver: forks worker processes, aggregates, proves determinism on a sample,
//! writes evidence, prints VIOLATION / KNOWN-FINDING lines, decides the exit code.
//!
//! exit 0 = property held on everything explored; 1 = violation; 2 = harness error.

use crate::rng;
use serde::{Deserialize, Serialize};
use serde_json::{json, Value};
use std::collections::{BTreeMap, BTreeSet};
use std::io::{Read, Write};
use std::process::{Command, Stdio};
use std::sync::{Arc, Mutex};
use std::time::{Duration, Instant};

pub const DEFAULT_SEED: u64 = 20260926;
pub const VERIF_DIR: &str = "/verif";

#[derive(Serialize, Deserialize, Clone, Debug)]
pub struct Violation {
  pub class: String,
  pub detail: String,
  /// path of the (already minimised, already re-verified) replay file
  pub replay_path: String,
  pub index: u64,
  pub seed: u64,
}

#[derive(Default, Clone, Debug)]
pub struct RunReport {
  /// hash of the complete event log (determinism proof)
  pub event_hash: u64,
  /// hash of the projected trace (distinctness measure)
  pub shape_hash: u64,
  pub nontrivial: bool,
  /// for simulations that execute several plans per run: hashes of the non-trivial ones
  pub more_hashes: Vec<u64>,
  /// number of simulated executions in this run (0 means 1)
  pub evals: u64,
  pub steps: u64,
  pub counters: BTreeMap<String, u64>,
  /// `<id> <what>` of listed known findings met by this run
  pub known: Vec<String>,
  /// (class, detail, replay document); the driver names and writes the file
  pub violation: Option<(String, String, Value)>,
  pub sample: Option<Value>,
}

impl RunReport {
  pub fn count(&mut self, key: &str) {
    *self.counters.entry(key.to_string()).or_insert(0) += 1;
  }
  pub fn add(&mut self, key: &str, n: u64) {
    *self.counters.entry(key.to_string()).or_insert(0) += n;
  }
}

pub struct ReplayOutcome {
  pub reproduced: bool,
  pub class: String,
  pub detail: String,
  pub event_hash: u64,
}

pub struct Describe {
  pub rule: String,
  pub assumptions: Vec<String>,
  pub real: Vec<String>,
  pub stub: Vec<String>,
  pub time_unit: String,
}

pub struct TierCfg {
  pub name: String,
  pub max_runs: u64,
  pub secs: u64,
}

pub trait Simulation: Sync {
  fn id(&self) -> &'static str;
  fn tier(&self, name: &str) -> TierCfg;
  /// One simulated run; a pure function of (seed, tier name) and the code under test.
  fn run(&self, seed: u64, tier: &str, known: &KnownFindings) -> RunReport;
  fn replay(&self, doc: &Value, known: &KnownFindings) -> ReplayOutcome;
  fn describe(&self) -> Describe;
  /// once per process, before any measured run
  fn warm_up(&self) {}
}

// ---------------------------------------------------------------------------------------
// known findings

#[derive(Deserialize, Default, Clone, Debug)]
pub struct KnownFindings {
  #[serde(default)]
  pub fixed: Vec<Value>,
  #[serde(default)]
  pub open: Vec<OpenFinding>,
}
#[derive(Deserialize, Clone, Debug)]
pub struct OpenFinding {
  pub property: String,
  pub id: String,
  #[serde(default)]
  pub signature: String,
  #[serde(default)]
  pub what: String,
}
impl KnownFindings {
  pub fn load() -> Self {
    let p = format!("{VERIF_DIR}/known_findings.json");
    match std::fs::read_to_string(&p) {
      Ok(s) => serde_json::from_str(&s).unwrap_or_else(|e| {
        eprintln!("HARNESS-ERROR: cannot parse {p}: {e}");
        std::process::exit(2)
      }),
      Err(_) => KnownFindings::default(),
    }
  }
  pub fn is_open(&self, property: &str, id: &str) -> Option<&OpenFinding> {
    self.open.iter().find(|f| f.property == property && f.id == id)
  }
}

// ---------------------------------------------------------------------------------------
// worker side

#[derive(Serialize, Deserialize, Default, Debug)]
pub struct WorkerSummary {
  /// slowest single run of this worker: (milliseconds, index)
  #[serde(default)]
  pub slowest: (u64, u64),
  pub runs: u64,
  #[serde(default)]
  pub evals: u64,
  pub steps: u64,
  pub nontrivial_hashes: Vec<u64>,
  pub counters: BTreeMap<String, u64>,
  pub known: BTreeMap<String, u64>,
  pub violations: Vec<Violation>,
  pub samples: Vec<Value>,
  pub det: Vec<(u64, u64)>, // (index, event_hash)
  pub hang_index: Option<u64>,
  pub harness_errors: Vec<String>,
  pub first_index: u64,
  pub last_index: u64,
}

pub struct WorkerArgs {
  /// where to write the summary (the worker's stdout may be polluted by the code under test)
  pub out: Option<String>,
  pub seed: u64,
  pub tier: String,
  pub from: u64,
  pub step: u64,
  pub max_runs: u64,
  pub secs: u64,
  pub det_per_worker: u64,
  pub only: Option<Vec<u64>>,
}

const HANG_SECS: u64 = 300;
const MAX_VIOLATIONS_PER_WORKER: usize = 2;

pub fn worker_main(sim: &dyn Simulation, a: WorkerArgs) -> ! {
  let known = KnownFindings::load();
  sim.warm_up();
  let summary = Arc::new(Mutex::new(WorkerSummary {
    first_index: a.from,
    ..Default::default()
  }));
  // watchdog: (index, started)
  let current: Arc<Mutex<Option<(u64, Instant)>>> = Arc::new(Mutex::new(None));
  let out_path = a.out.clone();
  {
    let out_path = out_path.clone();
    let current = current.clone();
    let summary = summary.clone();
    std::thread::spawn(move || loop {
      std::thread::sleep(Duration::from_millis(500));
      let c = *current.lock().unwrap();
      if let Some((idx, t0)) = c {
        if t0.elapsed() > Duration::from_secs(HANG_SECS) {
          let mut s = summary.lock().unwrap();
          s.hang_index = Some(idx);
          let out = serde_json::to_string(&*s).unwrap();
          emit_summary(&out_path, &out);
          unsafe { libc::_exit(3) };
        }
      }
    });
  }
  let start = Instant::now();
  let deadline = Duration::from_secs(a.secs);
  let indexes: Box<dyn Iterator<Item = u64>> = match &a.only {
    Some(v) => Box::new(v.clone().into_iter()),
    None => {
      let (from, step, max) = (a.from, a.step, a.max_runs);
      Box::new((0u64..).map(move |k| from + k * step).take_while(move |i| *i < max))
    }
  };
  let mut det_left = a.det_per_worker;
  for idx in indexes {
    if a.only.is_none() && start.elapsed() > deadline {
      break;
    }
    let seed = rng::run_seed(a.seed, idx);
    let run_t0 = Instant::now();
    *current.lock().unwrap() = Some((idx, run_t0));
    let rep = std::panic::catch_unwind(std::panic::AssertUnwindSafe(|| sim.run(seed, &a.tier, &known)));
    *current.lock().unwrap() = None;
    let mut s = summary.lock().unwrap();
    s.last_index = idx;
    let ms = run_t0.elapsed().as_millis() as u64;
    if ms > s.slowest.0 {
      s.slowest = (ms, idx);
    }
    match rep {
      Err(p) => {
        let msg = panic_msg(&p);
        s.harness_errors.push(format!("index={idx} seed={seed}: harness panic: {msg}"));
        if s.harness_errors.len() > 3 {
          break;
        }
      }
      Ok(r) => {
        s.runs += 1;
        s.evals += r.evals.max(1);
        s.steps += r.steps;
        if r.nontrivial {
          s.nontrivial_hashes.push(r.shape_hash);
        }
        s.nontrivial_hashes.extend(r.more_hashes.iter().copied());
        for (k, v) in r.counters {
          *s.counters.entry(k).or_insert(0) += v;
        }
        for k in r.known {
          *s.known.entry(k).or_insert(0) += 1;
        }
        if let Some(sm) = r.sample {
          if s.samples.len() < 2 {
            s.samples.push(sm);
          }
        }
        if det_left > 0 || a.only.is_some() {
          det_left = det_left.saturating_sub(1);
          s.det.push((idx, r.event_hash));
        }
        if let (Some((class, detail, doc)), true) = (r.violation, a.only.is_none() || a.det_per_worker == 0 && a.only.as_ref().map(|o| o.len()) == Some(1)) {
          let path = format!("{VERIF_DIR}/replays/{}-{}-{}.json", sim.id(), a.seed, idx);
          let _ = std::fs::create_dir_all(format!("{VERIF_DIR}/replays"));
          let mut doc = doc;
          if let Some(o) = doc.as_object_mut() {
            o.insert("property".into(), json!(sim.id()));
            o.insert("violation_class".into(), json!(class));
            o.insert("detail".into(), json!(detail));
            o.insert("root_seed".into(), json!(a.seed));
            o.insert("index".into(), json!(idx));
            o.insert("run_seed".into(), json!(seed));
          }
          if let Err(e) = std::fs::write(&path, serde_json::to_string_pretty(&doc).unwrap()) {
            s.harness_errors.push(format!("cannot write {path}: {e}"));
          }
          s.violations.push(Violation {
            class,
            detail,
            replay_path: path,
            index: idx,
            seed,
          });
          if s.violations.len() >= MAX_VIOLATIONS_PER_WORKER {
            break;
          }
        }
      }
    }
  }
  let s = summary.lock().unwrap();
  let out = serde_json::to_string(&*s).unwrap();
  emit_summary(&out_path, &out);
  unsafe { libc::_exit(0) };
}

fn emit_summary(path: &Option<String>, json: &str) {
  match path {
    Some(p) => {
      let _ = std::fs::write(p, json);
    }
    None => {
      let stdout = std::io::stdout();
      let mut l = stdout.lock();
      let _ = writeln!(l, "\n{json}");
      let _ = l.flush();
    }
  }
}

pub fn panic_msg(p: &Box<dyn std::any::Any + Send>) -> String {
  if let Some(s) = p.downcast_ref::<&str>() {
    s.to_string()
  } else if let Some(s) = p.downcast_ref::<String>() {
    s.clone()
  } else {
    "<non-string panic>".into()
  }
}

// ---------------------------------------------------------------------------------------
// parent side

pub struct CheckArgs {
  pub tier: String,
  pub seed: u64,
  pub workers: u64,
  pub runs: Option<u64>,
  pub secs: Option<u64>,
  pub no_evidence: bool,
}

struct Kid {
  child: std::process::Child,
  out: String,
}

static KID_SEQ: std::sync::atomic::AtomicU64 = std::sync::atomic::AtomicU64::new(0);

fn spawn_worker(prop: &str, extra: &[String]) -> Kid {
  let exe = std::env::current_exe().expect("current_exe");
  let dir = if std::path::Path::new("/dev/shm").is_dir() { "/dev/shm".to_string() } else { std::env::temp_dir().to_string_lossy().to_string() };
  let n = KID_SEQ.fetch_add(1, std::sync::atomic::Ordering::SeqCst);
  let out = format!("{dir}/agsim-summary-{}-{n}.json", std::process::id());
  let _ = std::fs::remove_file(&out);
  let child = Command::new(exe)
    .arg("worker")
    .arg(prop)
    .args(extra)
    .arg(format!("--out={out}"))
    .stdin(Stdio::null())
    .stdout(Stdio::piped())
    .stderr(Stdio::inherit())
    .spawn()
    .expect("spawn worker");
  Kid { child, out }
}

fn collect(mut kid: Kid) -> (i32, Option<WorkerSummary>, String) {
  let mut out = String::new();
  if let Some(mut so) = kid.child.stdout.take() {
    let mut bytes = vec![];
    let _ = so.read_to_end(&mut bytes);
    out = String::from_utf8_lossy(&bytes).into_owned();
  }
  let status = kid.child.wait().expect("wait");
  let code = status.code().unwrap_or(-1);
  let summary = std::fs::read_to_string(&kid.out).ok().and_then(|t| serde_json::from_str::<WorkerSummary>(&t).ok());
  let _ = std::fs::remove_file(&kid.out);
  // a worker removes its own scratch directory only on a clean exit; do it for it
  let scratch = if std::path::Path::new("/dev/shm").is_dir() { std::path::PathBuf::from("/dev/shm") } else { std::env::temp_dir() };
  let _ = std::fs::remove_dir_all(scratch.join(format!("agsim-{:010}", kid.child.id())));
  (code, summary, out)
}

pub fn check_main(sim: &dyn Simulation, a: CheckArgs) -> i32 {
  let t0 = Instant::now();
  let id = sim.id();
  let mut tier = sim.tier(&a.tier);
  if let Some(r) = a.runs {
    tier.max_runs = r;
  }
  if let Some(s) = a.secs {
    tier.secs = s;
  }
  println!(
    "agsim: property={id} tier={} VERIF_SEED={} workers={} max_runs={} budget_s={}",
    tier.name, a.seed, a.workers, tier.max_runs, tier.secs
  );
  let det_total: u64 = if tier.name == "quick" { 96 } else { 512 };
  let det_per_worker = (det_total / a.workers).max(2);
  let mut children = vec![];
  for w in 0..a.workers {
    let extra = vec![
      format!("--seed={}", a.seed),
      format!("--tier={}", tier.name),
      format!("--from={w}"),
      format!("--step={}", a.workers),
      format!("--max-runs={}", tier.max_runs),
      format!("--secs={}", tier.secs),
      format!("--det={det_per_worker}"),
    ];
    children.push(spawn_worker(id, &extra));
  }
  let mut total = WorkerSummary::default();
  let mut distinct: BTreeSet<u64> = BTreeSet::new();
  let mut harness_errors: Vec<String> = vec![];
  let mut hang_candidates = vec![];
  for (w, ch) in children.into_iter().enumerate() {
    let (code, summary, raw) = collect(ch);
    let Some(s) = summary else {
      harness_errors.push(format!("worker {w} exited with {code} and no summary; output tail: {}", tail(&raw)));
      continue;
    };
    if code == 3 {
      if let Some(h) = s.hang_index {
        hang_candidates.push(h);
      }
    } else if code != 0 {
      harness_errors.push(format!("worker {w} exited with {code}; output tail: {}", tail(&raw)));
    }
    merge(&mut total, &mut distinct, s);
  }
  harness_errors.extend(total.harness_errors.drain(..));

  // a hang is believed only if the same seed hangs again when run alone
  for h in hang_candidates {
    println!("agsim: run index {h} exceeded {HANG_SECS}s; re-running it alone");
    let extra = vec![
      format!("--seed={}", a.seed),
      format!("--tier={}", tier.name),
      format!("--only={h}"),
    ];
    let (code, summary, _) = collect(spawn_worker(id, &extra));
    if code == 3 {
      let path = format!("{VERIF_DIR}/replays/{id}-{}-{h}.json", a.seed);
      let doc = json!({"property": id, "violation_class": "HANG", "root_seed": a.seed, "index": h,
        "run_seed": rng::run_seed(a.seed, h), "regenerate_from_seed": true, "tier": tier.name});
      let _ = std::fs::create_dir_all(format!("{VERIF_DIR}/replays"));
      let _ = std::fs::write(&path, serde_json::to_string_pretty(&doc).unwrap());
      total.violations.push(Violation {
        class: "HANG".into(),
        detail: format!("run did not finish within {HANG_SECS}s, twice (OS-level hang)"),
        replay_path: path,
        index: h,
        seed: rng::run_seed(a.seed, h),
      });
    } else if let Some(s) = summary {
      merge(&mut total, &mut distinct, s);
    }
  }

  // determinism proof on a sample: recompute the recorded hashes in ONE other process,
  // in reverse order (different process history, different worker count)
  let mut det_mismatch = 0u64;
  let det_n = total.det.len() as u64;
  if !total.det.is_empty() && total.violations.iter().all(|v| v.class != "HANG") {
    let mut idxs: Vec<u64> = total.det.iter().map(|d| d.0).collect();
    idxs.sort();
    idxs.reverse();
    let chunks: Vec<Vec<u64>> = idxs.chunks(idxs.len().div_ceil(4).max(1)).map(|c| c.to_vec()).collect();
    let mut kids = vec![];
    for c in &chunks {
      let list = c.iter().map(|i| i.to_string()).collect::<Vec<_>>().join(",");
      let extra = vec![
        format!("--seed={}", a.seed),
        format!("--tier={}", tier.name),
        format!("--only={list}"),
      ];
      kids.push(spawn_worker(id, &extra));
    }
    let mut second: BTreeMap<u64, u64> = BTreeMap::new();
    for k in kids {
      let (code, summary, raw) = collect(k);
      match summary {
        Some(s) if code == 0 => {
          for (i, h) in s.det {
            second.insert(i, h);
          }
          for e in s.harness_errors {
            harness_errors.push(format!("determinism re-run: {e}"));
          }
        }
        _ => harness_errors.push(format!("determinism re-run worker failed ({code}): {}", tail(&raw))),
      }
    }
    for (i, h) in &total.det {
      match second.get(i) {
        Some(h2) if h2 == h => {}
        other => {
          det_mismatch += 1;
          if det_mismatch <= 5 {
            harness_errors.push(format!(
              "NONDETERMINISM: run index {i} event hash {h:016x} vs {:?} in a second process",
              other.map(|x| format!("{x:016x}"))
            ));
          }
        }
      }
    }
  }

  let wall = t0.elapsed().as_secs_f64();
  let d = sim.describe();
  let mut faults = BTreeMap::new();
  let mut probes = BTreeMap::new();
  let mut policies = BTreeMap::new();
  let mut other = BTreeMap::new();
  for (k, v) in &total.counters {
    if let Some(r) = k.strip_prefix("fault:") {
      faults.insert(r.to_string(), *v);
    } else if let Some(r) = k.strip_prefix("probe:") {
      probes.insert(r.to_string(), *v);
    } else if let Some(r) = k.strip_prefix("policy:") {
      policies.insert(r.to_string(), *v);
    } else {
      other.insert(k.clone(), *v);
    }
  }
  let runs_per_hour = if wall > 0.0 { (total.evals as f64 / wall * 3600.0) as u64 } else { 0 };
  println!(
    "agsim: {} worlds/histories, {} simulated runs, {} distinct non-trivial traces, {} steps, {:.1}s wall ({} runs/hour)",
    total.runs,
    total.evals,
    distinct.len(),
    total.steps,
    wall,
    runs_per_hour
  );
  println!("agsim: slowest single run: {} ms (index {}); the hang watchdog is at {HANG_SECS} s", total.slowest.0, total.slowest.1);
  println!("agsim: faults fired: {faults:?}");
  println!("agsim: probes: {probes:?}");
  if !policies.is_empty() {
    println!("agsim: policies: {policies:?}");
  }
  println!("agsim: determinism sample: {det_n} runs recomputed in other processes, {det_mismatch} mismatches");
  for (k, n) in &total.known {
    println!("KNOWN-FINDING: property={id} {k} (met in {n} runs)");
  }
  // violations: report one line per class (first replay of each)
  let mut seen = BTreeSet::new();
  let mut nviol = 0;
  for v in &total.violations {
    nviol += 1;
    if seen.insert(v.class.clone()) {
      println!("VIOLATION property={id} replay={} class={} seed={} index={} :: {}", v.replay_path, v.class, a.seed, v.index, v.detail);
    }
  }
  if !a.no_evidence {
    let ev = json!({
      "property_id": id,
      "tier": tier.name,
      "seed": a.seed,
      "level": "exploration",
      "coverage": {
        "evaluations": total.evals,
        "worlds_or_histories": total.runs,
        "distinct_nontrivial": distinct.len(),
        "rule": d.rule,
        "samples": total.samples.iter().take(4).collect::<Vec<_>>(),
        "runs_per_hour": runs_per_hour,
        "seeds": format!("run i uses mix(VERIF_SEED={}, i), i in {}..={}", a.seed, 0, total.last_index),
        "steps_simulated": total.steps,
        "simulated_time": d.time_unit,
        "faults_fired": faults,
        "policies": policies,
        "probes": probes,
        "other_counters": other,
        "known_findings_met": total.known,
        "components": {"real": d.real, "stub": d.stub},
        "determinism_sample": {"runs_recomputed_in_other_processes": det_n, "mismatches": det_mismatch},
        "workers": a.workers,
        "slowest_run_ms": total.slowest.0,
        "exhaustive": false
      },
      "assumptions": d.assumptions,
      "wall_s": wall,
      "violations": nviol
    });
    let _ = std::fs::create_dir_all(format!("{VERIF_DIR}/evidence"));
    let p = format!("{VERIF_DIR}/evidence/{id}.json");
    if let Err(e) = std::fs::write(&p, serde_json::to_string_pretty(&ev).unwrap()) {
      harness_errors.push(format!("cannot write evidence {p}: {e}"));
    }
  }
  if !harness_errors.is_empty() {
    for e in &harness_errors {
      println!("HARNESS-ERROR: {e}");
    }
    // a violation that was re-verified from its replay document stands on its own
    return if nviol > 0 { 1 } else { 2 };
  }
  if total.runs == 0 {
    println!("HARNESS-ERROR: no run executed");
    return 2;
  }
  if nviol > 0 {
    1
  } else {
    println!("agsim: property={id} held on everything explored");
    0
  }
}

fn merge(total: &mut WorkerSummary, distinct: &mut BTreeSet<u64>, s: WorkerSummary) {
  if s.slowest.0 > total.slowest.0 {
    total.slowest = s.slowest;
  }
  total.runs += s.runs;
  total.evals += s.evals;
  total.steps += s.steps;
  for h in s.nontrivial_hashes {
    distinct.insert(h);
  }
  for (k, v) in s.counters {
    *total.counters.entry(k).or_insert(0) += v;
  }
  for (k, v) in s.known {
    *total.known.entry(k).or_insert(0) += v;
  }
  total.violations.extend(s.violations);
  for sm in s.samples {
    if total.samples.len() < 4 {
      total.samples.push(sm);
    }
  }
  total.det.extend(s.det);
  total.harness_errors.extend(s.harness_errors);
  total.last_index = total.last_index.max(s.last_index);
}

fn tail(s: &str) -> String {
  let n = s.len();
  let mut start = n.saturating_sub(400);
  while !s.is_char_boundary(start) {
    start += 1;
  }
  s[start..].replace('\n', " | ")
}

pub fn replay_main(sim: &dyn Simulation, path: &str) -> i32 {
  let known = KnownFindings::load();
  sim.warm_up();
  let text = match std::fs::read_to_string(path) {
    Ok(t) => t,
    Err(e) => {
      println!("HARNESS-ERROR: cannot read {path}: {e}");
      return 2;
    }
  };
  let doc: Value = match serde_json::from_str(&text) {
    Ok(v) => v,
    Err(e) => {
      println!("HARNESS-ERROR: cannot parse {path}: {e}");
      return 2;
    }
  };
  let r = sim.replay(&doc, &known);
  let want_class = doc.get("violation_class").and_then(|v| v.as_str()).unwrap_or("");
  if r.reproduced {
    println!("agsim: replay of {path}: class={} event_hash={:016x} :: {}", r.class, r.event_hash, r.detail);
    if !want_class.is_empty() && want_class != r.class {
      println!("agsim: note: recorded class was {want_class}");
    }
    if let Some(h) = doc.get("event_hash").and_then(|v| v.as_str()) {
      let same = h == format!("{:016x}", r.event_hash);
      println!("agsim: event log hash {} the recorded one", if same { "equals" } else { "DIFFERS from" });
    }
    println!("VIOLATION property={} replay={path} class={}", sim.id(), r.class);
    1
  } else {
    println!("agsim: replay of {path}: no violation (recorded class {want_class}) :: {}", r.detail);
    0
  }
}
