//! C17 — files are processed independently, whatever the thread count or schedule.
//! Also enforces C15's exit-status clause and C16's output-framing clause as invariants.

use crate::cli_run::{self, CliOutcome};
use crate::cli_world::{self, CliWorld, GenOpts};
use crate::driver::*;
use crate::hashseam;
use crate::rng::{fnv1a, mix64, Rng};
use crate::sched::{Fault, Policy, SchedCfg, SchedResult};
use crate::shrink;
use serde::{Deserialize, Serialize};
use serde_json::{json, Value};
use std::collections::BTreeMap;
use std::path::PathBuf;

pub struct C17Sim;

#[derive(Clone, Debug, Serialize, Deserialize, PartialEq)]
pub struct Cmd {
  /// arguments after `sg`, without `-j` and without a path
  pub args: Vec<String>,
  /// stream | compact | pretty | lines
  pub mode: String,
  pub inspect: bool,
  pub is_scan: bool,
}

#[derive(Clone, Debug, Serialize, Deserialize)]
pub struct Plan {
  pub seed: u64,
  /// the reader of our stdout went away before we print anything (EPIPE on every write)
  #[serde(default)]
  pub stdout_closed: bool,
  pub k: usize,
  pub policy: Policy,
  pub faults: Vec<Fault>,
  #[serde(default)]
  pub forced: Option<Vec<u32>>,
  #[serde(default)]
  pub forced_picks: Option<Vec<u32>>,
}

const PLANS_PER_WORLD: usize = 20;

fn s(x: &str) -> String {
  x.to_string()
}

pub fn gen_cmd(rng: &mut Rng, w: &CliWorld) -> Cmd {
  let langs = w.languages();
  let roll = rng.below(100);
  let run_pat = |rng: &mut Rng| -> (String, String) {
    let lang = if langs.is_empty() { s("TypeScript") } else { rng.pick(&langs).clone() };
    let c = crate::corpus::corpus(&lang);
    let p = *rng.pick(c.probes);
    (lang, p.to_string())
  };
  let mut cmd = gen_cmd_base(rng, roll, &run_pat);
  // partial rule sets
  if cmd.is_scan {
    let standalone = w.standalone_rule_files();
    match rng.below(10) {
      0 if !standalone.is_empty() => cmd.args.extend([s("-r"), rng.pick(&standalone).clone()]),
      1 => {
        // a filter that keeps at least one rule: a piece of an existing rule id
        let ids: Vec<String> = w.all_rules().iter().filter(|r| r.severity.as_deref() != Some("off")).map(|r| r.id.clone()).collect();
        if !ids.is_empty() {
          let id = rng.pick(&ids);
          let piece: String = id.chars().take(rng.range(2, 6)).collect();
          cmd.args.push(format!("--filter={piece}"));
        }
      }
      _ => {}
    }
  }
  // `--json` together with `-U` prints the fixes as JSON and writes nothing; files without a fix
  // then contribute an empty item to the printer
  if cmd.is_scan && !cmd.inspect && matches!(cmd.mode.as_str(), "stream" | "compact" | "pretty") && rng.chance(0.15) {
    cmd.args.push(s("-U"));
  }
  // `--globs`: later globs override earlier ones
  if rng.chance(0.12) {
    let exts: Vec<String> = {
      let mut v: Vec<String> = w.files.iter().filter_map(|f| f.path.rsplit('.').next().map(|e| e.to_string())).filter(|e| !e.contains('/')).collect();
      v.sort();
      v.dedup();
      v
    };
    let ext = if exts.is_empty() { s("ts") } else { rng.pick(&exts).clone() };
    let dir = *rng.pick(&["web", "lib", "src", "src/deep", "vendor", "gen code"]);
    match rng.below(3) {
      0 => cmd.args.extend([s("--globs"), format!("!**/{dir}/**")]),
      1 => cmd.args.extend([s("--globs"), format!("**/*.{ext}"), s("--globs"), format!("!**/{dir}/**")]),
      _ => {
        // (a directory below an excluded one is pruned before the third glob can re-include its
        // files: keep to directories without sub-directories here)
        let leaf = if dir == "src" { "src/deep" } else { dir };
        cmd.args.extend([s("--globs"), format!("**/*.{ext}"), s("--globs"), format!("!**/{leaf}/**"), s("--globs"), format!("**/*.{ext}")])
      }
    }
  }
  // context lines are a per-file matter too
  match rng.below(10) {
    0 => cmd.args.extend([s("-C"), s("1")]),
    1 => cmd.args.extend([s("-A"), s("2"), s("-B"), s("1")]),
    _ => {}
  }
  cmd
}

fn gen_cmd_base(rng: &mut Rng, roll: usize, run_pat: &dyn Fn(&mut Rng) -> (String, String)) -> Cmd {
  match roll {
    0..=24 => Cmd { args: vec![s("scan"), s("--json=stream")], mode: s("stream"), inspect: false, is_scan: true },
    25..=34 => Cmd { args: vec![s("scan"), s("--json=compact")], mode: s("compact"), inspect: false, is_scan: true },
    35..=44 => Cmd { args: vec![s("scan"), s("--json")], mode: s("pretty"), inspect: false, is_scan: true },
    45..=54 => Cmd { args: vec![s("scan"), s("--json=stream"), s("--inspect"), s("summary")], mode: s("stream"), inspect: true, is_scan: true },
    55..=59 => Cmd { args: vec![s("scan"), s("--json=stream"), s("--inspect"), s("entity")], mode: s("stream"), inspect: true, is_scan: true },
    60..=66 => Cmd { args: vec![s("scan"), s("--format"), s("github")], mode: s("lines"), inspect: false, is_scan: true },
    67..=73 => Cmd { args: vec![s("scan"), s("--color"), s("never"), s("--report-style"), s("short")], mode: s("lines"), inspect: false, is_scan: true },
    74..=78 => Cmd { args: vec![s("scan"), s("--color"), s("never")], mode: s("lines"), inspect: false, is_scan: true },
    79..=88 => {
      let (lang, p) = run_pat(rng);
      Cmd { args: vec![s("run"), s("-p"), p, s("-l"), lang, s("--json=stream"), s("--inspect"), s("summary")], mode: s("stream"), inspect: true, is_scan: false }
    }
    89..=94 => {
      let (_, p) = run_pat(rng);
      Cmd { args: vec![s("run"), s("-p"), p, s("--json=compact")], mode: s("compact"), inspect: false, is_scan: false }
    }
    _ => {
      let (lang, p) = run_pat(rng);
      Cmd { args: vec![s("run"), s("-p"), p, s("-l"), lang, s("--color"), s("never"), s("--heading"), s("never")], mode: s("lines"), inspect: false, is_scan: false }
    }
  }
}

fn argv(cmd: &Cmd, k: usize, path: Option<&str>) -> Vec<String> {
  let mut v = vec![s("sg")];
  v.extend(cmd.args.iter().cloned());
  v.push(s("-j"));
  v.push(k.to_string());
  if let Some(p) = path {
    v.push(p.to_string());
  }
  v
}

/// What one invocation reported, normalised for comparison.
#[derive(Clone, Debug, Default, PartialEq)]
pub struct Observed {
  /// canonical JSON text of each record (or each output line in text modes), sorted
  pub records: Vec<String>,
  pub errors: Option<usize>,
  pub scanned: Option<usize>,
  pub skipped: Option<usize>,
  pub failed: Option<String>,
  /// `sg: entity|file|...` lines of `--inspect entity` (sorted)
  pub trace: Vec<String>,
}

fn canon(v: &Value) -> String {
  // serde_json's default map is a BTreeMap: keys come out sorted
  serde_json::to_string(v).unwrap()
}

/// Parse stdout according to the documented framing of the style. Err = malformed.
pub fn parse_output(cmd: &Cmd, out: &CliOutcome) -> Result<Observed, String> {
  let text = String::from_utf8(out.stdout.clone()).map_err(|e| format!("stdout is not UTF-8: {e}"))?;
  let mut o = Observed::default();
  if let (Err(e), None) = (&out.result, out.diagnostic_errors()) {
    if text.trim().is_empty() {
      // the command failed before printing anything (bad argument, no rule left, ...)
      o.failed = Some(e.clone());
      return Ok(o);
    }
  }
  match cmd.mode.as_str() {
    "stream" => {
      for line in text.split('\n') {
        if line.trim().is_empty() {
          continue;
        }
        let v: Value = serde_json::from_str(line).map_err(|e| format!("stream style: a line is not one JSON value ({e}): {}", clip(line)))?;
        if !v.is_object() {
          return Err(format!("stream style: a line is not a JSON object: {}", clip(line)));
        }
        o.records.push(canon(&v));
      }
    }
    "compact" | "pretty" => {
      let v: Value = serde_json::from_str(&text).map_err(|e| format!("{} style: stdout is not one JSON document ({e}): {}", cmd.mode, clip(&text)))?;
      let Some(arr) = v.as_array() else {
        return Err(format!("{} style: stdout is not a JSON array", cmd.mode));
      };
      for r in arr {
        if !r.is_object() {
          return Err(format!("{} style: an array element is not an object", cmd.mode));
        }
        o.records.push(canon(r));
      }
    }
    _ => {
      for line in text.split('\n') {
        if !line.is_empty() {
          o.records.push(line.to_string());
        }
      }
    }
  }
  o.records.sort();
  o.errors = out.diagnostic_errors();
  if let Err(e) = &out.result {
    if o.errors.is_none() {
      o.failed = Some(e.clone());
    }
  }
  if cmd.inspect {
    let err = out.stderr_str();
    for line in err.lines() {
      // a trace record is one line: `sg: <level>|<entity>[|<path>]: k=v,...`
      if line.contains("sg: ") && (!line.starts_with("sg: ") || line.matches("sg: ").count() != 1) {
        return Err(format!("--inspect: trace records are glued together or split: {}", clip(line)));
      }
      if line.starts_with("sg: entity|file|") {
        o.trace.push(line.to_string());
      }
      if let Some(rest) = line.strip_prefix("sg: summary|file: ") {
        for kv in rest.split(',') {
          if let Some(v) = kv.strip_prefix("scannedFileCount=") {
            o.scanned = v.trim().parse().ok();
          }
          if let Some(v) = kv.strip_prefix("skippedFileCount=") {
            o.skipped = v.trim().parse().ok();
          }
        }
      }
    }
    o.trace.sort();
  }
  Ok(o)
}

fn clip(s: &str) -> String {
  let t: String = s.chars().take(160).collect();
  if t.len() < s.len() {
    format!("{t}…")
  } else {
    t
  }
}

pub struct Env {
  pub root: PathBuf,
  pub hash_seed: u64,
}

impl Env {
  pub fn new(hash_seed: u64) -> Env {
    Env { root: cli_run::scratch_root().join("w"), hash_seed }
  }
  /// The reference: the same command on one file alone, one thread, no scheduler, no faults.
  pub fn baseline(&self, cmd: &Cmd, path: &str) -> Result<Observed, String> {
    // one walker thread under the canonical schedule (stay on the running thread, else
    // lowest id): fully deterministic, no faults
    let cfg = SchedCfg { seed: 0, policy: Policy::Canonical, k: 1, forced: None, forced_picks: None, faults: vec![], hash_seed: self.hash_seed };
    let out = cli_run::run_cli(&self.root, &argv(cmd, 1, Some(path)), self.hash_seed, Some(cfg));
    if let Some(a) = out.sched.as_ref().and_then(|s| s.abort.clone()) {
      return Err(format!("baseline run on {path} aborted: {a}"));
    }
    if let Some(p) = &out.consumer_panic {
      return Err(format!("baseline run on {path} panicked: {p}"));
    }
    parse_output(cmd, &out).map_err(|e| format!("baseline run on {path}: {e}"))
  }
}

#[derive(Debug, Clone)]
pub struct PlanOutcome {
  pub violation: Option<(String, String)>,
  pub sched: SchedResult,
  pub observed: Option<Observed>,
}

fn is_read_failure(kind: &str) -> bool {
  matches!(kind, "vanish" | "eio" | "eacces" | "replace-by-dir")
}

/// Execute one plan on the materialised world and check every invariant.
/// `baselines`: per discovered file path (filled lazily, only for un-mutated contents).
pub fn eval_plan(env: &Env, w: &CliWorld, cmd: &Cmd, plan: &Plan, baselines: &mut BTreeMap<String, Observed>) -> Result<PlanOutcome, String> {
  let cfg = SchedCfg {
    seed: plan.seed,
    policy: plan.policy.clone(),
    k: plan.k,
    forced: plan.forced.clone(),
    forced_picks: plan.forced_picks.clone(),
    faults: plan.faults.clone(),
    hash_seed: env.hash_seed,
  };
  let out = cli_run::run_cli_opts(&env.root, &argv(cmd, plan.k, None), env.hash_seed, Some(cfg), plan.stdout_closed);
  let sched = out.sched.clone().ok_or("no scheduler result")?;
  let mut po = PlanOutcome { violation: None, sched: sched.clone(), observed: None };
  let viol = |c: &str, d: String| Some((c.to_string(), d));

  // 1. termination
  if let Some(a) = &sched.abort {
    let class = if a.starts_with("DEADLOCK") { "DEADLOCK" } else { "UNBOUNDED" };
    po.violation = viol(class, a.clone());
    return Ok(po);
  }
  if let Some(p) = &out.consumer_panic {
    po.violation = viol("PANIC", format!("the printing thread panicked: {p}"));
    return Ok(po);
  }
  if !sched.panics.is_empty() {
    po.violation = viol("PANIC", format!("a producer thread panicked: {}", sched.panics.join("; ")));
    return Ok(po);
  }
  if plan.stdout_closed {
    // only termination and absence of panics are asserted: the consumer fails on its first
    // write, drops the receiver, and every producer must wind down (send fails -> Quit)
    // (whether the command reports the EPIPE is not asserted: std's stdout buffers small
    // outputs and swallows the error of the final flush, and the property does not speak of it)
    return Ok(po);
  }
  // 2. well-formed output
  let obs = match parse_output(cmd, &out) {
    Ok(o) => o,
    Err(e) => {
      po.violation = viol("MALFORMED-OUTPUT", e);
      return Ok(po);
    }
  };
  po.observed = Some(obs.clone());
  if let Some(f) = &obs.failed {
    // the command itself failed (config error etc.): the baselines must fail the same way
    let probe = w.files.first().map(|f| f.path.clone());
    let same = match probe {
      Some(p) => env.baseline(cmd, &p).map(|b| b.failed.is_some()).unwrap_or(false),
      None => true,
    };
    if !same {
      po.violation = viol("COMMAND-FAILED", format!("the tree-wide run failed with {f:?} but a single-file run does not"));
    }
    return Ok(po);
  }
  // monitor over the event log: the error counter is read only after every producer is done
  if let Some(load) = sched.events.iter().position(|e| e.contains(" errcnt-load ")) {
    if let Some(late) = sched.events.iter().rposition(|e| e.contains(" errcnt-add ") || e.contains(" send ")) {
      if late > load {
        po.violation = viol("COUNTER-READ-EARLY", format!("the error counter was read at event {load} but a producer still added/sent at event {late}"));
        return Ok(po);
      }
    }
  }
  // each discovered file is read at most once
  let mut reads: BTreeMap<&str, usize> = BTreeMap::new();
  for e in &sched.events {
    if let Some(i) = e.find(" read ") {
      *reads.entry(&e[i + 6..]).or_insert(0) += 1;
    }
  }
  if let Some((p, n)) = reads.iter().find(|(_, n)| **n > 1) {
    po.violation = viol("PROCESSED-TWICE", format!("file {p} was read {n} times in one run"));
    return Ok(po);
  }
  // 3/4. union of per-file baselines (fault isolation for faulted paths)
  let world_paths: Vec<&str> = w.files.iter().map(|f| f.path.as_str()).collect();
  let mut expected: Vec<String> = vec![];
  let mut exp_errors = 0usize;
  let mut exp_scanned = 0usize;
  let mut exp_skipped = 0usize;
  let mut exp_trace: Vec<String> = vec![];
  // the union ranges over every file of the tree that the ignore rules do not exclude, not
  // only over what the walker reported: a file lost at discovery must show up as missing
  // hidden directories are never walked; `vendor/` only when the generated .ignore says so
  let ignored = |p: &str| p.split('/').any(|c| c.starts_with('.')) || (w.ignore_file.is_some() && p.split('/').any(|c| c == "vendor"));
  let mut universe: Vec<String> = sched.discovered.clone();
  // ... restricted to the files the command is meant to process: for `scan` the languages
  // rules are written for, for `run -l L` that language (files of other languages are not
  // walked at all because of the type filter, while naming such a file explicitly still
  // reports e.g. its unused suppressions — the front-end quirk listed under C09)
  let lang_of = |p: &str| -> Option<&'static str> {
    let ext = p.rsplit('.').next().unwrap_or("");
    crate::corpus::CORPORA.iter().find(|c| c.ext == ext).map(|c| c.lang)
  };
  let wanted_langs: Vec<String> = if cmd.is_scan {
    // rules switched off are dropped at load time and do not contribute a file type
    // `-r FILE` restricts the rule set to that file, `--filter RE` to the ids matching RE
    // (the generated filters are plain substrings joined by `|`)
    let rfile = cmd.args.iter().position(|a| a == "-r").map(|i| cmd.args[i + 1].clone());
    let filter = cmd.args.iter().find_map(|a| a.strip_prefix("--filter=").map(|x| x.to_string()));
    let in_file = |id: &str| match &rfile {
      None => true,
      Some(f) => w.rule_dirs.iter().any(|d| d.files.iter().any(|x| format!("{}/{}", d.name, x.name) == *f && x.docs.iter().any(|r| r.id == id))),
    };
    let passes = |id: &str| match &filter {
      None => true,
      Some(re) => re.split('|').any(|alt| id.contains(alt)),
    };
    let mut v: Vec<String> = w.all_rules().iter().filter(|r| r.severity.as_deref() != Some("off") && in_file(&r.id) && passes(&r.id)).map(|r| r.language.clone()).collect();
    v.sort();
    v.dedup();
    v
  } else {
    match cmd.args.iter().position(|a| a == "-l") {
      Some(i) => vec![cmd.args[i + 1].clone()],
      None => crate::corpus::CORPORA.iter().map(|c| c.lang.to_string()).collect(),
    }
  };
  // `--globs`: the last glob that matches a path decides; a path no glob matches is left out as
  // soon as there is an including glob (the generated globs are `**/*.EXT` and `!**/DIR/**`)
  let globs: Vec<&String> = cmd.args.iter().enumerate().filter(|(i, _)| *i > 0 && cmd.args[i - 1] == "--globs").map(|(_, a)| a).collect();
  let glob_allows = |p: &str| -> bool {
    let mut verdict: Option<bool> = None;
    for g in &globs {
      let (neg, body) = match g.strip_prefix('!') {
        Some(b) => (true, b),
        None => (false, g.as_str()),
      };
      let hit = if let Some(ext) = body.strip_prefix("**/*.") {
        p.ends_with(&format!(".{ext}"))
      } else if let Some(dir) = body.strip_prefix("**/").and_then(|b| b.strip_suffix("/**")) {
        let comps: Vec<&str> = p.split('/').collect();
        comps[..comps.len() - 1].windows(dir.split('/').count()).any(|w| w.join("/") == dir)
      } else {
        false
      };
      if hit {
        verdict = Some(!neg);
      }
    }
    verdict.unwrap_or(!globs.iter().any(|g| !g.starts_with('!')))
  };
  // a symbolic link is not followed, and what `--globs` excludes is not eligible: neither belongs
  // to the union even if the walker handed it out
  universe.retain(|d| {
    let is_link = std::fs::symlink_metadata(env.root.join(d)).map(|m| m.file_type().is_symlink()).unwrap_or(false);
    !is_link && (globs.is_empty() || env.root.join(d).is_dir() || glob_allows(d))
  });
  for f in &w.files {
    let meant = lang_of(&f.path).map(|l| wanted_langs.iter().any(|x| x == l)).unwrap_or(false);
    if !universe.contains(&f.path) && !ignored(&f.path) && meant && f.kind != "symlink" && glob_allows(&f.path) {
      universe.push(f.path.clone());
    }
  }
  for d in &universe {
    let was_discovered = sched.discovered.contains(d);
    if !world_paths.contains(&d.as_str()) && !env.root.join(d).is_file() {
      continue; // directories
    }
    let fired = sched.fired.iter().find(|f| &f.path == d);
    // hard links share their content: a fault that rewrote one path changed all of them
    let group_of = |p: &str| -> String { w.files.iter().find(|f| f.path == p).and_then(|f| f.link_to.clone()).unwrap_or_else(|| p.to_string()) };
    // ... for this path only if it was read after that fault fired (event order decides)
    let read_pos = sched.events.iter().position(|e| e.ends_with(&format!(" read {d}")));
    let content_changed_elsewhere = fired.is_none()
      && sched.fired.iter().any(|f| {
        let fault_pos = sched.events.iter().position(|e| *e == format!("fault {} {}", f.kind, f.path));
        matches!(f.kind.as_str(), "truncate" | "content-swap")
          && f.path != *d
          && group_of(&f.path) == group_of(d)
          && matches!((read_pos, fault_pos), (Some(r), Some(x)) if r > x)
      });
    let b: Observed = match fired {
      None if content_changed_elsewhere => env.baseline(cmd, d)?,
      Some(f) if is_read_failure(&f.kind) => Observed { scanned: Some(1), skipped: Some(1), ..Default::default() },
      Some(_) => env.baseline(cmd, d)?, // mutated content is still in the sandbox
      None => {
        if !baselines.contains_key(d) {
          let b = env.baseline(cmd, d)?;
          baselines.insert(d.clone(), b);
        }
        baselines[d].clone()
      }
    };
    if let Some(f) = &b.failed {
      return Err(format!("baseline for {d} failed: {f}"));
    }
    // "non-UTF-8, empty or oversized files are skipped": whatever the thread count, no part of
    // such a file may be reported
    if fired.is_none() && !b.records.is_empty() {
      if let Some(wf) = w.files.iter().find(|f| f.path == *d && matches!(f.kind.as_str(), "non_utf8" | "empty" | "oversize" | "oversize_mb")) {
        po.violation = viol("INELIGIBLE-FILE-REPORTED", format!("{d} is a {} file and has to be skipped, but scanning it reports {} record(s), e.g. {}", wf.kind, b.records.len(), clip(&b.records[0])));
        return Ok(po);
      }
    }
    expected.extend(b.records.iter().cloned());
    if was_discovered {
      exp_trace.extend(b.trace.iter().cloned());
    }
    exp_errors += b.errors.unwrap_or(0);
    if was_discovered {
      exp_scanned += b.scanned.unwrap_or(0);
      exp_skipped += b.skipped.unwrap_or(0);
    }
  }
  expected.sort();
  if expected != obs.records {
    let missing: Vec<&String> = diff_multiset(&expected, &obs.records);
    let extra: Vec<&String> = diff_multiset(&obs.records, &expected);
    po.violation = viol(
      "RECORDS-MISMATCH",
      format!(
        "tree-wide run reports {} records, union of per-file runs {}; missing {}: {}; unexpected {}: {}",
        obs.records.len(),
        expected.len(),
        missing.len(),
        missing.first().map(|s| clip(s)).unwrap_or_default(),
        extra.len(),
        extra.first().map(|s| clip(s)).unwrap_or_default()
      ),
    );
    return Ok(po);
  }
  // 5. exit status (scan only: run has no severity)
  if cmd.is_scan {
    let got = obs.errors.unwrap_or(0);
    if got != exp_errors {
      po.violation = viol("EXIT-STATUS", format!("scan ended with {got} error(s) found, the union of per-file runs has {exp_errors}"));
      return Ok(po);
    }
  }
  if cmd.inspect && cmd.args.iter().any(|a| a == "entity") {
    exp_trace.sort();
    if exp_trace != obs.trace {
      if std::env::var("AGSIM_DEBUG").is_ok() {
        eprintln!("EXP {:#?}\nOBS {:#?}", exp_trace, obs.trace);
      }
      let missing = diff_multiset(&exp_trace, &obs.trace);
      let extra = diff_multiset(&obs.trace, &exp_trace);
      po.violation = viol(
        "INSPECT-TRACE",
        format!(
          "--inspect entity: {} file records, per-file runs add up to {}; missing e.g. {:?}, unexpected e.g. {:?}",
          obs.trace.len(),
          exp_trace.len(),
          missing.first().map(|s| clip(s)),
          extra.first().map(|s| clip(s))
        ),
      );
      return Ok(po);
    }
  }
  if cmd.inspect {
    if obs.scanned != Some(exp_scanned) || obs.skipped != Some(exp_skipped) {
      po.violation = viol(
        "INSPECT-COUNT",
        format!("summary says scanned={:?} skipped={:?}, per-file runs add up to scanned={exp_scanned} skipped={exp_skipped}", obs.scanned, obs.skipped),
      );
      return Ok(po);
    }
  }
  Ok(po)
}

fn diff_multiset<'a>(a: &'a [String], b: &'a [String]) -> Vec<&'a String> {
  // elements of sorted a not matched in sorted b
  let mut out = vec![];
  let (mut i, mut j) = (0, 0);
  while i < a.len() {
    if j >= b.len() {
      out.push(&a[i]);
      i += 1;
    } else if a[i] == b[j] {
      i += 1;
      j += 1;
    } else if a[i] < b[j] {
      out.push(&a[i]);
      i += 1;
    } else {
      j += 1;
    }
  }
  out
}

pub fn gen_plan(seed: u64, w: &CliWorld, tier: &str) -> Plan {
  let mut r = Rng::stream(seed, "plan");
  let k = match r.below(10) {
    0 | 1 => 1,
    2 | 3 => 2,
    4 => 3,
    5 => 4,
    6 => 8,
    7 => r.range(5, 12),
    _ => r.range(1, 16),
  };
  let policy = Policy::draw(&mut r);
  let mut fr = Rng::stream(seed, "fault");
  let mut faults = vec![];
  let normal: Vec<&crate::cli_world::SrcFile> = w.files.iter().filter(|f| f.kind == "normal").collect();
  if !normal.is_empty() && !fr.chance(0.4) {
    let n = fr.range(1, 3);
    for _ in 0..n {
      let f = fr.pick(&normal);
      // one fault per file, and per group of hard links (they share their content, and the
      // expectation for a mutated file is taken from the tree as the run left it)
      let group = |p: &str| -> String { w.files.iter().find(|x| x.path == p).and_then(|x| x.link_to.clone()).unwrap_or_else(|| p.to_string()) };
      if faults.iter().any(|x: &Fault| group(&x.path) == group(&f.path)) {
        continue;
      }
      // in a tree with hard links a fault that rewrites a file rewrites all its links at some
      // point of the schedule; such trees only get faults that leave file contents alone
      let has_links = w.files.iter().any(|x| x.link_to.is_some());
      let kind = if has_links {
        *fr.pick(&["vanish", "replace-by-dir", "eio", "eacces"])
      } else {
        *fr.pick(&["vanish", "truncate", "replace-by-dir", "content-swap", "eio", "eacces"])
      };
      let content = if kind == "content-swap" {
        let other = fr.pick(&normal);
        Some(other.text.clone())
      } else {
        None
      };
      faults.push(Fault { kind: kind.to_string(), path: f.path.clone(), content });
    }
  }
  let _ = tier;
  let stdout_closed = fr.chance(0.04);
  Plan { seed, stdout_closed, k, policy, faults, forced: None, forced_picks: None }
}

fn shape_of(cmd: &Cmd, plan: &Plan, sr: &SchedResult) -> String {
  // projected trace: (role, kind, target) without payloads
  let mut h = String::new();
  h.push_str(&cmd.args.join(" "));
  h.push('|');
  h.push_str(&plan.k.to_string());
  for e in &sr.events {
    h.push('\n');
    h.push_str(e);
  }
  h
}

fn gen_world_and_cmd(seed: u64) -> (CliWorld, Cmd) {
  let mut r = Rng::stream(seed, "world");
  let w = cli_world::gen_world(
    &mut r,
    &GenOpts { max_files: 14, allow_special: true, with_tests: false, fix_heavy: false, order_sensitive_rules: false, hard_links: true, injections: true, lang_globs: false },
  );
  let cmd = gen_cmd(&mut r, &w);
  let mut w = w;
  if cmd.mode == "lines" {
    // the plain-text reports print source lines verbatim: the excerpt of a file without a
    // final newline is followed on the same output line by the next file's report. That is
    // cosmetic, but it defeats a line-by-line comparison, so text modes get newline-terminated files
    for f in w.files.iter_mut() {
      if f.kind == "normal" && !f.text.is_empty() && !f.text.ends_with('\n') {
        f.text.push('\n');
      }
    }
  }
  (w, cmd)
}

fn hash_events(ev: &[String]) -> u64 {
  let mut h = 0xcbf2_9ce4_8422_2325u64;
  for e in ev {
    h = (h ^ fnv1a(e.as_bytes())).wrapping_mul(0x0000_0100_0000_01B3);
  }
  h
}

/// Full evaluation from scratch (used by shrinking and replay).
/// Reference runs of every source file on the pristine tree. They must exist before any plan
/// runs: a fault that rewrites one path also rewrites its hard links, so a reference computed
/// afterwards would see the mutated content.
fn warm_baselines(env: &Env, w: &CliWorld, cmd: &Cmd, baselines: &mut BTreeMap<String, Observed>) -> Result<(), String> {
  for f in &w.files {
    if f.kind == "symlink" {
      continue; // not an eligible file: the walker does not follow links
    }
    if !baselines.contains_key(&f.path) {
      let b = env.baseline(cmd, &f.path)?;
      baselines.insert(f.path.clone(), b);
    }
  }
  Ok(())
}

fn eval_fresh(w: &CliWorld, cmd: &Cmd, plan: &Plan, hash_seed: u64) -> Result<PlanOutcome, String> {
  let env = Env::new(hash_seed);
  w.materialize(&env.root);
  let mut b = BTreeMap::new();
  warm_baselines(&env, w, cmd, &mut b)?;
  eval_plan(&env, w, cmd, plan, &mut b)
}

fn minimise(w: &CliWorld, cmd: &Cmd, plan: &Plan, hash_seed: u64, class: &str, sr: &SchedResult) -> (CliWorld, Plan) {
  let same = |w: &CliWorld, p: &Plan| -> bool { matches!(eval_fresh(w, cmd, p, hash_seed), Ok(PlanOutcome { violation: Some((c, _)), .. }) if c == class) };
  let mut w = w.clone();
  // pin the schedule that failed
  let mut plan = plan.clone();
  plan.forced = Some(sr.choices.clone());
  plan.forced_picks = Some(sr.picks.clone());
  if !same(&w, &plan) {
    // cannot even re-run it: report unminimised
    return (w, plan);
  }
  // fewer faults
  let f = shrink::ddmin(&plan.faults, |fs| {
    let mut p = plan.clone();
    p.faults = fs.to_vec();
    same(&w, &p)
  });
  plan.faults = f;
  // canonical schedule, then fewer threads
  for cand in [(Some(vec![]), Some(vec![])), (Some(vec![]), plan.forced_picks.clone()), (plan.forced.clone(), Some(vec![]))] {
    let mut p = plan.clone();
    p.forced = cand.0;
    p.forced_picks = cand.1;
    if same(&w, &p) {
      plan = p;
      break;
    }
  }
  for k in [1usize, 2, 3] {
    if k < plan.k {
      let mut p = plan.clone();
      p.k = k;
      if same(&w, &p) {
        plan = p;
        break;
      }
    }
  }
  // fewer files
  let files = shrink::ddmin(&w.files, |fs| {
    let mut w2 = w.clone();
    w2.files = fs.to_vec();
    let mut p = plan.clone();
    p.faults.retain(|f| fs.iter().any(|x| x.path == f.path));
    p.faults.len() == plan.faults.len() && same(&w2, &p)
  });
  w.files = files;
  // fewer rules (whole rule files)
  for di in 0..w.rule_dirs.len() {
    let fs = shrink::ddmin(&w.rule_dirs[di].files, |fs| {
      let mut w2 = w.clone();
      w2.rule_dirs[di].files = fs.to_vec();
      same(&w2, &plan)
    });
    w.rule_dirs[di].files = fs;
  }
  // shorten the schedule: drop trailing forced choices (canonical rule takes over)
  if let Some(f) = plan.forced.clone() {
    let mut lo = 0usize;
    let mut hi = f.len();
    let mut tries = 0;
    while lo < hi && tries < 12 {
      let mid = (lo + hi) / 2;
      let mut p = plan.clone();
      p.forced = Some(f[..mid].to_vec());
      if same(&w, &p) {
        hi = mid;
      } else {
        lo = mid + 1;
      }
      tries += 1;
    }
    let mut p = plan.clone();
    p.forced = Some(f[..hi].to_vec());
    if same(&w, &p) {
      plan = p;
    }
  }
  (w, plan)
}

impl Simulation for C17Sim {
  fn id(&self) -> &'static str {
    "C17"
  }
  fn tier(&self, name: &str) -> TierCfg {
    if name == "thorough" {
      TierCfg { name: "thorough".into(), max_runs: 30_000, secs: 900 }
    } else {
      TierCfg { name: "quick".into(), max_runs: 600, secs: 150 }
    }
  }
  fn run(&self, seed: u64, tier: &str, _known: &KnownFindings) -> RunReport {
    cli_run::quiet_panics();
    hashseam::set_per_thread(false);
    let (w, cmd) = gen_world_and_cmd(seed);
    let hash_seed = mix64(seed ^ 0x68617368);
    let env = Env::new(hash_seed);
    w.materialize(&env.root);
    let mut baselines = BTreeMap::new();
    if let Err(e) = warm_baselines(&env, &w, &cmd, &mut baselines) {
      panic!("harness: {e} (cmd {:?})", cmd.args);
    }
    let mut r = RunReport::default();
    let mut all_events: Vec<String> = vec![];
    for p in 0..PLANS_PER_WORLD {
      let pseed = mix64(seed ^ (p as u64 + 1).wrapping_mul(0xA24B_AED4_963E_E407));
      let plan = gen_plan(pseed, &w, tier);
      r.evals += 1;
      let po = match eval_plan(&env, &w, &cmd, &plan, &mut baselines) {
        Ok(po) => po,
        Err(e) => panic!("harness: {e} (cmd {:?})", cmd.args),
      };
      r.steps += po.sched.steps;
      r.count(&format!("policy:{}", plan.policy.name()));
      r.count(&format!("policy:threads={}", if plan.k >= 5 { "5+".to_string() } else { plan.k.to_string() }));
      r.count(if plan.faults.is_empty() { "policy:fault-free" } else { "policy:fault-injecting" });
      for f in &po.sched.fired {
        r.count(&format!("fault:{}", f.kind));
      }
      if plan.stdout_closed {
        r.count("fault:stdout-closed");
      }
      for f in &w.files {
        if f.kind != "normal" && po.sched.discovered.contains(&f.path) {
          r.count(&format!("fault:world-{}", f.kind));
        }
      }
      if po.sched.recv_empty > 0 {
        r.count("probe:consumer_found_channel_empty_while_producers_alive");
      }
      if po.sched.events.iter().any(|e| e.ends_with("note walk-quit ")) {
        r.count("probe:walk_quit");
      }
      if let Some(o) = &po.observed {
        if !o.records.is_empty() {
          r.count("probe:runs_with_findings");
        }
        if w.injections > 0 && o.records.iter().any(|x| (x.contains(".ts\"") || x.contains(".js\"")) && (x.contains("\"language\":\"Css\"") || x.contains("\"language\":\"Html\""))) {
          r.count("probe:runs_with_findings_in_documents_injected_by_sgconfig");
        }
        if o.errors.unwrap_or(0) > 0 {
          r.count("probe:runs_with_error_exit");
        }
      }
      r.add("probe:preemptions", po.sched.preemptions);
      if cmd.args.iter().any(|a| a == "--globs") {
        r.count("probe:runs_with_globs_overrides");
      }
      if w.files.iter().any(|f| f.kind == "symlink") {
        r.count("probe:runs_in_trees_with_a_symbolic_link");
      }
      if !w.aux_files.is_empty() || w.ignore_file.as_deref().is_some_and(|i| i.contains("{foo")) {
        r.count("probe:runs_in_trees_with_a_rejected_ignore_line");
      }
      let h = fnv1a(shape_of(&cmd, &plan, &po.sched).as_bytes());
      if po.sched.preemptions > 0 || !po.sched.fired.is_empty() {
        r.more_hashes.push(h);
      }
      all_events.push(format!("plan {p} k={} {}", plan.k, plan.policy.name()));
      all_events.extend(po.sched.events.iter().cloned());
      if let Some(o) = &po.observed {
        all_events.push(format!("records={} h={:016x}", o.records.len(), fnv1a(o.records.join("\n").as_bytes())));
      }
      if !plan.faults.is_empty() {
        w.write_sources(&env.root);
      }
      if p == 0 && (seed & 7) == 0 {
        r.sample = Some(json!({
          "cmd": argv(&cmd, plan.k, None).join(" "),
          "files": w.files.iter().map(|f| format!("{} ({})", f.path, f.kind)).collect::<Vec<_>>(),
          "rules": w.all_rules().iter().map(|r| r.id.clone()).collect::<Vec<_>>(),
          "plan": {"threads": plan.k, "policy": plan.policy.name(), "faults": plan.faults.iter().map(|f| format!("{} {}", f.kind, f.path)).collect::<Vec<_>>()},
          "trace_head": po.sched.events.iter().take(40).collect::<Vec<_>>(),
          "steps": po.sched.steps, "preemptions": po.sched.preemptions,
        }));
      }
      if let Some((class, detail)) = po.violation.clone() {
        let (mw, mp) = minimise(&w, &cmd, &plan, hash_seed, &class, &po.sched);
        let fin = eval_fresh(&mw, &cmd, &mp, hash_seed);
        let (class2, detail2, eh) = match &fin {
          Ok(PlanOutcome { violation: Some((c, d)), sched, .. }) => (c.clone(), d.clone(), hash_events(&sched.events)),
          _ => (class.clone(), detail.clone(), 0),
        };
        let doc = json!({
          "world": mw, "cmd": cmd, "plan": mp, "hash_seed": hash_seed,
          "event_hash": format!("{eh:016x}"),
          "schedule_trace": fin.as_ref().ok().map(|p| p.sched.events.clone()),
          "original": {"files": w.files.len(), "rules": w.all_rules().len(), "threads": plan.k, "policy": plan.policy.name(), "faults": plan.faults.len(), "steps": po.sched.steps},
        });
        r.violation = Some((class2, detail2, doc));
        w.materialize(&env.root);
        break;
      }
    }
    r.event_hash = hash_events(&all_events);
    r.nontrivial = false;
    r
  }
  fn replay(&self, doc: &Value, _known: &KnownFindings) -> ReplayOutcome {
    cli_run::quiet_panics();
    hashseam::set_per_thread(false);
    let bad = |m: String| ReplayOutcome { reproduced: false, class: "".into(), detail: m, event_hash: 0 };
    let w: CliWorld = match serde_json::from_value(doc["world"].clone()) {
      Ok(x) => x,
      Err(e) => return bad(format!("cannot read world: {e}")),
    };
    let cmd: Cmd = match serde_json::from_value(doc["cmd"].clone()) {
      Ok(x) => x,
      Err(e) => return bad(format!("cannot read cmd: {e}")),
    };
    let plan: Plan = match serde_json::from_value(doc["plan"].clone()) {
      Ok(x) => x,
      Err(e) => return bad(format!("cannot read plan: {e}")),
    };
    let hash_seed = doc["hash_seed"].as_u64().unwrap_or(0);
    match eval_fresh(&w, &cmd, &plan, hash_seed) {
      Ok(PlanOutcome { violation: Some((c, d)), sched, .. }) => ReplayOutcome { reproduced: true, class: c, detail: d, event_hash: hash_events(&sched.events) },
      Ok(po) => ReplayOutcome { reproduced: false, class: "".into(), detail: "run satisfied every invariant".into(), event_hash: hash_events(&po.sched.events) },
      Err(e) => bad(format!("harness error during replay: {e}")),
    }
  }
  fn warm_up(&self) {
    crate::selftest::warm_up();
  }
  fn describe(&self) -> Describe {
    Describe {
      rule: "a case = (generated project: 1-3 rule languages, 1-9 rules per language out of 45 hand-written templates (utils/constraints/transforms/rewriters/files/ignores/expandStart/End, local utils shadowing global ones) plus 0-3 randomly generated rule trees with inter-dependent utilities; 0-14 source files in nested dirs incl. names with spaces and non-ASCII, empty/non-UTF-8/oversize/binary/3MB-but-short files, BOM, CRLF, no trailing newline, 150-600-element lines; optional .ignore incl. lines the glob compiler rejects, nested .ignore files, symbolic links to files (not eligible), `languageInjections`; one command out of 10 scan/run forms with optional context lines, -r/--filter, --globs overrides (later glob wins); a plan = thread count 1-16 x scheduling policy x seeded schedule x 0-3 I/O faults attached to file reads x optional closed stdout). 20 plans per world. Oracle: output multiset == union of the same command on each file alone, over every file the command is meant to process (not only those the walker reported); framing per JSON style; exit status; --inspect counts; event-log monitors. Yield points: guarded hooks plus every lock/atomic of ast-grep's crates (sync shim). non-trivial = the run had >=1 pre-emption or >=1 fired fault; distinct = full projected scheduler event trace plus command and thread count not seen before".into(),
      assumptions: vec![
        "ignore's own thread pool is stubbed: discovery is real code run to completion first, distribution of entries to K simulated walker threads is decided by the scheduler; 'each entry is yielded once' is ignore's contract".into(),
        "code between two yield points runs atomically; every synchronisation object in the pipeline (channel, atomics, file system) has a yield point in front of it".into(),
        "hash seeds are held fixed per world here (C13 varies them)".into(),
      ],
      real: vec!["ast_grep::main_with_args (clap parsing, project setup, rule loading)".into(), "run_worker / produce_item / consume_items / Items".into(), "ignore::WalkParallel discovery with real filters".into(), "all printers".into(), "read_file, std::fs".into(), "std::sync::mpsc channel".into()],
      stub: vec!["ignore's work-stealing pool (replaced by K baton-scheduled walker threads driving the production visitor closure)".into(), "blocking recv (try_recv + scheduler-visible blocking)".into(), "EIO/EACCES on read (injected through a guarded hook; the sandbox runs as root)".into()],
      time_unit: "n/a (no clocks in ast-grep); steps = scheduler decisions".into(),
    }
  }
}

#[derive(Serialize, Deserialize)]
struct Dummy;
