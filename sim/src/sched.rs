//! Baton scheduler: real OS threads, but only the thread that holds the baton runs; who
//! gets the baton next is decided by the `sched` stream (or a recorded choice list).
//! Implements the `SimHooks` seam of `ast_grep::verif`.

use crate::hashseam;
use crate::rng::{fnv1a, Rng};
use ast_grep::verif::SimHooks;
use serde::{Deserialize, Serialize};
use std::cell::Cell;
use std::path::Path;
use std::sync::{Condvar, Mutex};

pub const STEP_CAP: u64 = 200_000;

#[derive(Clone, Debug, Serialize, Deserialize, PartialEq)]
pub enum Policy {
  Uniform,
  Sticky(u32), // switch probability in percent
  StarveConsumer,
  StarveProducers,
  OneAtATime,
  Pct(u32),
  /// stay on the current thread while it is runnable, else lowest runnable id
  Canonical,
}

impl Policy {
  pub fn name(&self) -> String {
    match self {
      Policy::Uniform => "uniform".into(),
      Policy::Sticky(p) => format!("sticky{p}"),
      Policy::StarveConsumer => "starve-consumer".into(),
      Policy::StarveProducers => "starve-producers".into(),
      Policy::OneAtATime => "one-at-a-time".into(),
      Policy::Pct(d) => format!("pct{d}"),
      Policy::Canonical => "canonical".into(),
    }
  }
  pub fn draw(rng: &mut Rng) -> Policy {
    match rng.below(12) {
      0 | 1 | 2 => Policy::Uniform,
      3 => Policy::Sticky(2),
      4 => Policy::Sticky(10),
      5 => Policy::Sticky(30),
      6 => Policy::StarveConsumer,
      7 => Policy::StarveProducers,
      8 => Policy::OneAtATime,
      9 => Policy::Pct(1),
      10 => Policy::Pct(2),
      _ => Policy::Pct(3),
    }
  }
}

#[derive(Clone, Debug, Serialize, Deserialize, PartialEq)]
pub struct Fault {
  /// vanish | truncate | replace-by-dir | content-swap | eio | eacces | write-eio | write-torn
  pub kind: String,
  /// path as ast-grep spells it (relative to the sandbox root, no leading ./)
  pub path: String,
  /// for content-swap: the new content
  #[serde(default)]
  pub content: Option<String>,
}

#[derive(Clone, Debug, PartialEq)]
enum St {
  Runnable,
  /// inside the production `recv()` (really blocked in the OS); schedulable once the
  /// scheduler's channel model says the call can return
  BlockedRecv,
  BlockedJoin(Vec<usize>),
  /// found a lock held by a parked thread: runnable again after any other thread's event
  BlockedRetry,
  Exited,
}

struct Th {
  role: String,
  st: St,
  prio: i64,
  started: bool,
  /// passed a `send` yield and has not reached its next event yet
  pending_send: bool,
}

#[derive(Default, Clone, Debug)]
pub struct SchedResult {
  pub events: Vec<String>,
  pub choices: Vec<u32>,
  pub picks: Vec<u32>,
  pub steps: u64,
  pub preemptions: u64,
  pub abort: Option<String>,
  pub panics: Vec<String>,
  pub fired: Vec<Fault>,
  pub discovered: Vec<String>,
  pub recv_empty: u64,
  pub lock_contention: u64,
  pub sync_yields: u64,
  pub threads: usize,
  pub notes: Vec<(String, String)>,
}

struct Inner {
  threads: Vec<Th>,
  current: usize,
  rng: Rng,
  pick_rng: Rng,
  policy: Policy,
  forced: Option<Vec<u32>>,
  forced_pos: usize,
  forced_picks: Option<Vec<u32>>,
  forced_pick_pos: usize,
  pct_points: Vec<u64>,
  faults: Vec<Fault>,
  fault_fired: Vec<bool>,
  res: SchedResult,
  k: usize,
  finished: bool,
  /// channel model: sends known to be complete / items handed to the consumer
  sent_completed: u64,
  received: u64,
}

pub struct Sched {
  inner: Mutex<Inner>,
  cv: Condvar,
  hash_seed: u64,
}

thread_local! {
  static MY_TID: Cell<usize> = const { Cell::new(usize::MAX) };
}

pub struct SchedCfg {
  pub seed: u64,
  pub policy: Policy,
  pub k: usize,
  pub forced: Option<Vec<u32>>,
  pub forced_picks: Option<Vec<u32>>,
  pub faults: Vec<Fault>,
  pub hash_seed: u64,
}

impl Sched {
  pub fn new(cfg: SchedCfg) -> Self {
    let mut rng = Rng::stream(cfg.seed, "sched");
    let pick_rng = Rng::stream(cfg.seed, "pick");
    let mut pct_points = vec![];
    if let Policy::Pct(d) = cfg.policy {
      for _ in 0..d {
        pct_points.push(rng.below(400) as u64);
      }
    }
    let nf = cfg.faults.len();
    Sched {
      inner: Mutex::new(Inner {
        threads: vec![],
        current: 0,
        rng,
        pick_rng,
        policy: cfg.policy,
        forced: cfg.forced,
        forced_pos: 0,
        forced_picks: cfg.forced_picks,
        forced_pick_pos: 0,
        pct_points,
        faults: cfg.faults,
        fault_fired: vec![false; nf],
        res: SchedResult::default(),
        k: cfg.k,
        finished: false,
        sent_completed: 0,
        received: 0,
      }),
      cv: Condvar::new(),
      hash_seed: cfg.hash_seed,
    }
  }

  /// Called on the thread that will run the CLI's consumer side (it calls `main_with_args`).
  pub fn begin_consumer(&self) {
    let mut g = self.inner.lock().unwrap();
    assert!(g.threads.is_empty());
    let prio = g.rng.next_u64() as i64 >> 8;
    g.threads.push(Th { role: "consumer".into(), st: St::Runnable, prio, started: true, pending_send: false });
    g.current = 0;
    MY_TID.with(|t| t.set(0));
    hashseam::set_sim_tid(1);
    g.res.events.push("0 consumer start".into());
  }

  /// Consumer is done (main returned): let every other thread run to completion.
  pub fn finish(&self) -> SchedResult {
    let mut g = self.inner.lock().unwrap();
    let me = MY_TID.with(|t| t.get());
    if me != usize::MAX && me < g.threads.len() {
      g.threads[me].st = St::Exited;
      g.res.events.push(format!("{me} consumer done"));
      Self::wake_dependents(&mut g, me);
      self.pass_baton(&mut g, me, false);
    }
    while !g.threads.iter().all(|t| t.st == St::Exited) && g.res.abort.is_none() {
      g = self.cv.wait(g).unwrap();
    }
    if g.res.abort.is_some() {
      // aborted: threads run free now; wait (bounded by the worker watchdog) for them to leave
      let t0 = std::time::Instant::now();
      while !g.threads.iter().all(|t| t.st == St::Exited) && t0.elapsed().as_secs() < 20 {
        let (ng, _) = self.cv.wait_timeout(g, std::time::Duration::from_millis(50)).unwrap();
        g = ng;
      }
    }
    g.finished = true;
    g.res.threads = g.threads.len();
    let mut fired = vec![];
    for (i, f) in g.faults.iter().enumerate() {
      if g.fault_fired[i] {
        fired.push(f.clone());
      }
    }
    g.res.fired = fired;
    MY_TID.with(|t| t.set(usize::MAX));
    g.res.clone()
  }

  /// the production `recv()` of a thread parked in it can return now
  fn recv_ready(g: &Inner, who: usize) -> bool {
    g.sent_completed > g.received || g.threads.iter().enumerate().all(|(i, t)| i == who || t.st == St::Exited)
  }

  fn runnable(g: &Inner) -> Vec<usize> {
    g.threads
      .iter()
      .enumerate()
      .filter(|(i, t)| t.st == St::Runnable || (t.st == St::BlockedRecv && Self::recv_ready(g, *i)))
      .map(|(i, _)| i)
      .collect()
  }

  /// a thread reached an event: a send it announced before is complete now
  fn settle_send(g: &mut Inner, who: usize) {
    if who < g.threads.len() && g.threads[who].pending_send {
      g.threads[who].pending_send = false;
      g.sent_completed += 1;
    }
  }

  fn wake_dependents(g: &mut Inner, who: usize) {
    for (i, t) in g.threads.iter_mut().enumerate() {
      if i != who && t.st == St::BlockedRetry {
        t.st = St::Runnable;
      }
    }
    // joiners whose children have all exited
    let exited: Vec<bool> = g.threads.iter().map(|t| t.st == St::Exited).collect();
    for t in g.threads.iter_mut() {
      if let St::BlockedJoin(ch) = &t.st {
        if ch.iter().all(|c| exited[*c]) {
          t.st = St::Runnable;
        }
      }
    }
  }

  fn choose(g: &mut Inner, me: usize, run: &[usize]) -> usize {
    debug_assert!(!run.is_empty());
    let me_runnable = run.contains(&me);
    if g.forced.is_some() {
      let pos = g.forced_pos;
      g.forced_pos += 1;
      let f = g.forced.as_ref().unwrap();
      if let Some(c) = f.get(pos) {
        let c = *c as usize;
        if run.contains(&c) {
          return c;
        }
      }
      // infeasible or exhausted: canonical rule
      return if me_runnable { me } else { run[0] };
    }
    let others: Vec<usize> = run.iter().copied().filter(|t| *t != 0).collect();
    match g.policy.clone() {
      Policy::Canonical => {
        if me_runnable {
          me
        } else {
          run[0]
        }
      }
      Policy::Uniform => run[g.rng.below(run.len())],
      Policy::Sticky(p) => {
        if me_runnable && !g.rng.chance(p as f64 / 100.0) {
          me
        } else {
          run[g.rng.below(run.len())]
        }
      }
      Policy::StarveConsumer => {
        if others.is_empty() {
          run[0]
        } else if me_runnable && me != 0 && !g.rng.chance(0.3) {
          me
        } else {
          others[g.rng.below(others.len())]
        }
      }
      Policy::StarveProducers => {
        if run.contains(&0) {
          0
        } else {
          run[g.rng.below(run.len())]
        }
      }
      Policy::OneAtATime => {
        if me_runnable && me != 0 {
          me
        } else if let Some(o) = others.iter().rev().next() {
          // highest id first: walkers before the master before the consumer
          *o
        } else {
          run[0]
        }
      }
      Policy::Pct(_) => {
        let step = g.res.steps;
        if g.pct_points.contains(&step) {
          // lower the priority of the current thread below everything
          let min = g.threads.iter().map(|t| t.prio).min().unwrap_or(0);
          if me < g.threads.len() {
            g.threads[me].prio = min - 1;
          }
        }
        *run.iter().max_by_key(|t| g.threads[**t].prio).unwrap()
      }
    }
  }

  /// Hand the baton to the next thread. `me` keeps its current state.
  fn pass_baton(&self, g: &mut Inner, me: usize, _me_waits: bool) {
    let run = Self::runnable(g);
    if run.is_empty() {
      if g.threads.iter().all(|t| t.st == St::Exited) {
        self.cv.notify_all();
        return;
      }
      let blocked: Vec<String> = g
        .threads
        .iter()
        .enumerate()
        .filter(|(_, t)| t.st != St::Exited)
        .map(|(i, t)| format!("{i}:{}:{:?}", t.role, t.st))
        .collect();
      g.res.abort = Some(format!("DEADLOCK no runnable thread; blocked: {}", blocked.join(" ")));
      g.res.events.push("deadlock".into());
      self.cv.notify_all();
      return;
    }
    let next = Self::choose(g, me, &run);
    if next != me && run.contains(&me) {
      g.res.preemptions += 1;
    }
    g.res.choices.push(next as u32);
    g.current = next;
    self.cv.notify_all();
  }

  fn wait_for_baton<'a>(&'a self, mut g: std::sync::MutexGuard<'a, Inner>, me: usize) -> std::sync::MutexGuard<'a, Inner> {
    while g.current != me && g.res.abort.is_none() {
      g = self.cv.wait(g).unwrap();
    }
    g
  }

  fn me() -> usize {
    MY_TID.with(|t| t.get())
  }
}

impl agsim_sync::SyncHooks for Sched {
  fn participating(&self) -> bool {
    if Self::me() == usize::MAX {
      return false;
    }
    match self.inner.try_lock() {
      Ok(g) => g.res.abort.is_none() && !g.finished,
      // the scheduler's own lock is held by this very thread only inside hook calls
      Err(_) => true,
    }
  }
  fn yield_point(&self, kind: &str) {
    SimHooks::yield_point(self, kind, "");
  }
  fn block_retry(&self, kind: &str) {
    let me = Self::me();
    if me == usize::MAX {
      return;
    }
    let mut g = self.inner.lock().unwrap();
    if g.res.abort.is_some() || g.finished {
      drop(g);
      std::thread::yield_now();
      return;
    }
    g.res.lock_contention += 1;
    g.res.events.push(format!("{me} blocked-on {kind}"));
    g.threads[me].st = St::BlockedRetry;
    self.pass_baton(&mut g, me, true);
    let _g = self.wait_for_baton(g, me);
  }
}

fn norm(p: &str) -> &str {
  p.strip_prefix("./").unwrap_or(p)
}

impl SimHooks for Sched {
  fn yield_point(&self, kind: &str, target: &str) {
    let me = Self::me();
    if me == usize::MAX {
      return; // a thread the simulator does not know (never the case for ast-grep code)
    }
    let mut g = self.inner.lock().unwrap();
    if g.res.abort.is_some() || g.finished {
      return;
    }
    g.res.steps += 1;
    if target.is_empty() && (kind.starts_with("atomic") || kind.contains("lock") || kind.starts_with("once") || kind.starts_with("try_")) {
      g.res.sync_yields += 1;
    }
    Self::settle_send(&mut g, me);
    if kind == "send" {
      g.threads[me].pending_send = true;
    }
    let role = g.threads[me].role.clone();
    g.res.events.push(format!("{me} {role} {kind} {}", norm(target)));
    if g.res.steps > STEP_CAP {
      g.res.abort = Some(format!("UNBOUNDED more than {STEP_CAP} scheduler steps"));
      self.cv.notify_all();
      return;
    }
    Self::wake_dependents(&mut g, me);
    self.pass_baton(&mut g, me, true);
    let _g = self.wait_for_baton(g, me);
  }

  fn pre_spawn(&self, role: &str) -> u64 {
    let mut g = self.inner.lock().unwrap();
    let tid = g.threads.len();
    let prio = g.rng.next_u64() as i64 >> 8;
    g.threads.push(Th { role: role.to_string(), st: St::Runnable, prio, started: false, pending_send: false });
    let me = Self::me();
    g.res.events.push(format!("{me} spawn {tid} {role}"));
    tid as u64
  }

  fn thread_start(&self, token: u64) {
    let me = token as usize;
    MY_TID.with(|t| t.set(me));
    hashseam::set_sim_tid(me as u64 + 1);
    let _ = self.hash_seed;
    let g = self.inner.lock().unwrap();
    let mut g = self.wait_for_baton(g, me);
    if g.res.abort.is_none() {
      g.threads[me].started = true;
      let role = g.threads[me].role.clone();
      g.res.events.push(format!("{me} {role} start"));
    }
  }

  fn thread_exit(&self, token: u64, panicking: bool) {
    let me = token as usize;
    let mut g = self.inner.lock().unwrap();
    Self::settle_send(&mut g, me);
    g.threads[me].st = St::Exited;
    let role = g.threads[me].role.clone();
    g.res.events.push(format!("{me} {role} exit{}", if panicking { " PANICKING" } else { "" }));
    if panicking {
      g.res.panics.push(format!("thread {me} ({role}) panicked"));
    }
    if g.res.abort.is_some() {
      self.cv.notify_all();
      return;
    }
    Self::wake_dependents(&mut g, me);
    self.pass_baton(&mut g, me, false);
  }

  fn before_recv(&self) {
    self.yield_point("recv", "");
    let me = Self::me();
    if me == usize::MAX {
      return;
    }
    let mut g = self.inner.lock().unwrap();
    if g.res.abort.is_some() || g.finished {
      return;
    }
    if Self::recv_ready(&g, me) {
      return; // the production recv() will not block
    }
    // the production recv() is going to block for real: give the baton away first
    g.res.recv_empty += 1;
    g.res.events.push(format!("{me} recv-blocks"));
    g.threads[me].st = St::BlockedRecv;
    self.pass_baton(&mut g, me, false);
  }

  fn after_recv(&self) {
    let me = Self::me();
    if me == usize::MAX {
      return;
    }
    let mut g = self.inner.lock().unwrap();
    if g.finished {
      return;
    }
    if g.threads[me].st == St::BlockedRecv {
      g = self.wait_for_baton(g, me);
      g.threads[me].st = St::Runnable;
    }
    if g.res.abort.is_some() {
      return;
    }
    if g.sent_completed > g.received {
      g.received += 1;
      g.res.events.push(format!("{me} recv-item"));
    } else {
      g.res.events.push(format!("{me} recv-closed"));
    }
  }

  fn block_on_join(&self, tokens: &[u64]) {
    let me = Self::me();
    let mut g = self.inner.lock().unwrap();
    if g.res.abort.is_some() {
      return;
    }
    let ch: Vec<usize> = tokens.iter().map(|t| *t as usize).collect();
    g.res.events.push(format!("{me} join {ch:?}"));
    if ch.iter().all(|c| g.threads[*c].st == St::Exited) {
      return;
    }
    g.threads[me].st = St::BlockedJoin(ch);
    self.pass_baton(&mut g, me, true);
    let _g = self.wait_for_baton(g, me);
  }

  fn walker_threads(&self) -> usize {
    self.inner.lock().unwrap().k
  }

  fn pick_entry(&self, remaining: usize) -> usize {
    let mut g = self.inner.lock().unwrap();
    let c = if g.forced_picks.is_some() {
      let pos = g.forced_pick_pos;
      g.forced_pick_pos += 1;
      let f = g.forced_picks.as_ref().unwrap();
      f.get(pos).map(|c| (*c as usize).min(remaining - 1)).unwrap_or(0)
    } else {
      g.pick_rng.below(remaining)
    };
    g.res.picks.push(c as u32);
    c
  }

  fn discovered(&self, paths: &[String]) {
    let mut g = self.inner.lock().unwrap();
    g.res.discovered = paths.iter().map(|p| norm(p).to_string()).collect();
    let h = fnv1a(g.res.discovered.join("\n").as_bytes());
    g.res.events.push(format!("discovered n={} h={h:016x}", paths.len()));
  }

  fn fs_read_fault(&self, path: &Path) -> Option<std::io::Error> {
    let mut g = self.inner.lock().unwrap();
    let p = path.to_string_lossy().to_string();
    let p = norm(&p).to_string();
    let idx = (0..g.faults.len()).find(|i| !g.fault_fired[*i] && g.faults[*i].path == p && !g.faults[*i].kind.starts_with("write"))?;
    g.fault_fired[idx] = true;
    let f = g.faults[idx].clone();
    g.res.events.push(format!("fault {} {}", f.kind, f.path));
    drop(g);
    match f.kind.as_str() {
      "vanish" => {
        let _ = std::fs::remove_file(path);
        None
      }
      "truncate" => {
        if let Ok(bytes) = std::fs::read(path) {
          // cut at a line end within the first half: the plain-text reports print source lines
          // verbatim and a file without final newline glues the next report onto its last line,
          // which is cosmetic but defeats a line-by-line comparison
          let half = &bytes[..bytes.len() / 2];
          let cut = half.iter().rposition(|b| *b == b'\n').map(|i| i + 1).unwrap_or(0);
          let _ = std::fs::write(path, &bytes[..cut]);
        }
        None
      }
      "replace-by-dir" => {
        let _ = std::fs::remove_file(path);
        let _ = std::fs::create_dir(path);
        None
      }
      "content-swap" => {
        let _ = std::fs::write(path, f.content.clone().unwrap_or_default());
        None
      }
      "eio" => Some(std::io::Error::from_raw_os_error(libc::EIO)),
      "eacces" => Some(std::io::Error::from_raw_os_error(libc::EACCES)),
      _ => None,
    }
  }

  fn fs_write_fault(&self, path: &Path) -> Option<std::io::Error> {
    let mut g = self.inner.lock().unwrap();
    let p = path.to_string_lossy().to_string();
    let p = norm(&p).to_string();
    let idx = (0..g.faults.len()).find(|i| !g.fault_fired[*i] && g.faults[*i].path == p && g.faults[*i].kind.starts_with("write"))?;
    g.fault_fired[idx] = true;
    let f = g.faults[idx].clone();
    g.res.events.push(format!("fault {} {}", f.kind, f.path));
    drop(g);
    match f.kind.as_str() {
      "write-eio" => Some(std::io::Error::from_raw_os_error(libc::EIO)),
      "write-torn" => {
        // the file was opened with O_TRUNC and the device filled up before any byte landed
        let _ = std::fs::write(path, b"");
        Some(std::io::Error::from_raw_os_error(libc::ENOSPC))
      }
      _ => None,
    }
  }

  fn note(&self, kind: &str, detail: &str) {
    let me = Self::me();
    let mut g = self.inner.lock().unwrap();
    if kind == "panic" {
      g.res.panics.push(format!("thread {me}: {detail}"));
    }
    g.res.events.push(format!("{me} note {kind} {}", truncate(detail, 80)));
    g.res.notes.push((kind.to_string(), detail.to_string()));
  }
}

fn truncate(s: &str, n: usize) -> String {
  s.chars().take(n).collect()
}
