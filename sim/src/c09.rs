//! C09 — the language server's history clause ("the diagnostics last published for a
//! document are those of the highest-version text received") and LSP ≡ CLI on every text
//! that occurs in a simulated history.
//!
//! The server future is production's (`Server::new(i, o, socket).serve(service)` built by
//! `ast_grep::verif::lsp_serve`, i.e. the body of `run_language_server_impl`), polled by a
//! hand-rolled single-thread executor over two in-memory pipes. tower-lsp's own
//! concurrency (`buffer_unordered(4)`, `FuturesUnordered` wake order, bounded client
//! channel, framed codec) runs unmodified; the simulator only decides when bytes become
//! readable / writable and when (and how) the editor answers server requests.

use crate::c17::{parse_output, Cmd};
use crate::cli_run;
use crate::cli_world::{self, CliWorld, GenOpts};
use crate::driver::*;
use crate::hashseam;
use crate::rng::{fnv1a, mix64, Rng};
use crate::sched::{Policy, SchedCfg};
use crate::shrink;
use serde::{Deserialize, Serialize};
use serde_json::{json, Value};
use std::cell::RefCell;
use std::collections::{BTreeMap, VecDeque};
use std::future::Future;
use std::io;
use std::path::PathBuf;
use std::pin::Pin;
use std::rc::Rc;
use std::sync::atomic::{AtomicBool, Ordering};
use std::sync::Arc;
use std::task::{Context, Poll, Wake, Waker};
use tokio::io::{AsyncRead, AsyncWrite, ReadBuf};

pub struct C09Sim;

const POLL_CAP: u64 = 50_000;

// ---------------------------------------------------------------------------------------
// world

#[derive(Clone, Debug, Serialize, Deserialize, PartialEq)]
#[serde(tag = "t")]
pub enum Msg {
  Open { uri: usize, version: i32, text: String },
  Change { uri: usize, version: i32, text: String },
  Close { uri: usize },
  Save { uri: usize },
  CodeAction { uri: usize },
  FixAll { uri: usize },
  /// the editor's workspace folder changes (to the sibling directory or back); it tells the
  /// server and reports the new folder from now on
  SwitchWorkspace,
}

#[derive(Clone, Debug, Serialize, Deserialize, PartialEq)]
pub struct UriSpec {
  pub rel: String,
  pub inside: bool,
}

#[derive(Clone, Debug, Serialize, Deserialize)]
pub struct LspWorld {
  pub project: CliWorld,
  pub uris: Vec<UriSpec>,
  pub history: Vec<Msg>,
}

/// Transport/editor decisions, materialised so that a replay does not depend on a PRNG.
#[derive(Clone, Debug, Serialize, Deserialize, PartialEq)]
#[serde(tag = "a")]
pub enum Action {
  /// make the next `n` bytes of the client stream readable
  Feed { n: usize },
  /// put the next `n` whole client messages into the stream and make them readable at once
  Burst { n: usize },
  /// allow the server to write `n` more bytes (usize::MAX = unbounded from now on)
  Grant { n: usize },
}

#[derive(Clone, Debug, Serialize, Deserialize, PartialEq)]
pub enum ReplyPolicy {
  Now,
  /// after this many further client messages
  After(usize),
  Error,
  Null,
}

#[derive(Clone, Debug, Serialize, Deserialize, Default)]
pub struct Script {
  pub actions: Vec<Action>,
  /// policy for the i-th server->client request
  pub replies: Vec<ReplyPolicy>,
}

// ---------------------------------------------------------------------------------------
// in-memory transport

#[derive(Default)]
struct Pipe {
  buf: VecDeque<u8>,
  closed: bool,
  /// output side: bytes the server may still write (None = unbounded)
  budget: Option<usize>,
  waker: Option<Waker>,
  blocked: bool,
}

struct SimIn(Rc<RefCell<Pipe>>);
struct SimOut(Rc<RefCell<Pipe>>);

impl AsyncRead for SimIn {
  fn poll_read(self: Pin<&mut Self>, cx: &mut Context<'_>, buf: &mut ReadBuf<'_>) -> Poll<io::Result<()>> {
    let mut p = self.0.borrow_mut();
    if p.buf.is_empty() {
      if p.closed {
        return Poll::Ready(Ok(())); // EOF
      }
      p.waker = Some(cx.waker().clone());
      p.blocked = true;
      return Poll::Pending;
    }
    let n = buf.remaining().min(p.buf.len());
    for _ in 0..n {
      let b = p.buf.pop_front().unwrap();
      buf.put_slice(&[b]);
    }
    p.blocked = false;
    Poll::Ready(Ok(()))
  }
}

impl AsyncWrite for SimOut {
  fn poll_write(self: Pin<&mut Self>, cx: &mut Context<'_>, data: &[u8]) -> Poll<io::Result<usize>> {
    let mut p = self.0.borrow_mut();
    let n = match p.budget {
      None => data.len(),
      Some(0) => {
        p.waker = Some(cx.waker().clone());
        p.blocked = true;
        return Poll::Pending;
      }
      Some(b) => data.len().min(b),
    };
    if let Some(b) = p.budget.as_mut() {
      *b -= n;
    }
    p.buf.extend(&data[..n]);
    p.blocked = false;
    Poll::Ready(Ok(n))
  }
  fn poll_flush(self: Pin<&mut Self>, _cx: &mut Context<'_>) -> Poll<io::Result<()>> {
    Poll::Ready(Ok(()))
  }
  fn poll_shutdown(self: Pin<&mut Self>, _cx: &mut Context<'_>) -> Poll<io::Result<()>> {
    Poll::Ready(Ok(()))
  }
}

struct Flag(AtomicBool);
impl Wake for Flag {
  fn wake(self: Arc<Self>) {
    self.0.store(true, Ordering::SeqCst);
  }
  fn wake_by_ref(self: &Arc<Self>) {
    self.0.store(true, Ordering::SeqCst);
  }
}

fn frame(v: &Value) -> Vec<u8> {
  let body = serde_json::to_vec(v).unwrap();
  let mut out = format!("Content-Length: {}\r\n\r\n", body.len()).into_bytes();
  out.extend(body);
  out
}

/// Parse complete frames from `buf`, leaving the incomplete tail.
fn parse_frames(buf: &mut Vec<u8>) -> Result<Vec<Value>, String> {
  let mut out = vec![];
  loop {
    let Some(hend) = buf.windows(4).position(|w| w == b"\r\n\r\n") else {
      return Ok(out);
    };
    let header = String::from_utf8_lossy(&buf[..hend]).to_string();
    let mut len = None;
    for line in header.split("\r\n") {
      if let Some(v) = line.strip_prefix("Content-Length:") {
        len = v.trim().parse::<usize>().ok();
      }
    }
    let Some(len) = len else {
      return Err(format!("server output frame without Content-Length: {header:?}"));
    };
    if buf.len() < hend + 4 + len {
      return Ok(out);
    }
    let body = buf[hend + 4..hend + 4 + len].to_vec();
    buf.drain(..hend + 4 + len);
    let v: Value = serde_json::from_slice(&body).map_err(|e| format!("server output frame is not JSON: {e}"))?;
    out.push(v);
  }
}

// ---------------------------------------------------------------------------------------
// simulation of one history

#[derive(Clone, Debug, PartialEq, Eq, PartialOrd, Ord)]
pub struct Diag {
  pub code: String,
  pub sl: u64,
  pub sc: u64,
  pub el: u64,
  pub ec: u64,
  pub message: String,
  pub severity: u64,
}

#[derive(Clone, Debug)]
pub struct Publish {
  pub uri: String,
  pub version: Option<i64>,
  pub diags: Vec<Diag>,
}

#[derive(Default, Clone, Debug)]
pub struct SimResult {
  pub events: Vec<String>,
  pub publishes: Vec<Publish>,
  pub polls: u64,
  pub abort: Option<(String, String)>,
  pub script: Script,
  pub server_requests: usize,
  pub max_inflight_hint: usize,
  pub backpressure_polls: u64,
  pub responses: BTreeMap<String, usize>,
  pub client_requests: Vec<String>,
  pub completed: bool,
  pub bytes_in: usize,
  pub bytes_out: usize,
}

fn root_dir() -> PathBuf {
  cli_run::scratch_root().join("w")
}

fn outside_dir() -> PathBuf {
  cli_run::scratch_root().join("outside")
}

/// path of the document as the CLI is given it (relative inside the project, absolute outside)
fn cli_path(u: &UriSpec) -> String {
  if u.inside {
    u.rel.clone()
  } else {
    format!("{}/{}", outside_dir().display(), u.rel)
  }
}

/// percent-encode a path the way editors do when they build a file: URI
fn pct(path: &str) -> String {
  let mut o = String::new();
  for b in path.bytes() {
    if b.is_ascii_alphanumeric() || matches!(b, b'-' | b'.' | b'_' | b'~' | b'/') {
      o.push(b as char);
    } else {
      o.push_str(&format!("%{b:02X}"));
    }
  }
  o
}

fn uri_of(u: &UriSpec) -> String {
  if u.inside {
    format!("file://{}/{}", root_dir().display(), pct(&u.rel))
  } else {
    format!("file://{}/{}", outside_dir().display(), pct(&u.rel))
  }
}

fn client_message(w: &LspWorld, m: &Msg, next_id: &mut i64) -> Value {
  match m {
    Msg::Open { uri, version, text } => json!({"jsonrpc":"2.0","method":"textDocument/didOpen","params":{"textDocument":{"uri":uri_of(&w.uris[*uri]),"languageId":"x","version":version,"text":text}}}),
    Msg::Change { uri, version, text } => json!({"jsonrpc":"2.0","method":"textDocument/didChange","params":{"textDocument":{"uri":uri_of(&w.uris[*uri]),"version":version},"contentChanges":[{"text":text}]}}),
    Msg::Close { uri } => json!({"jsonrpc":"2.0","method":"textDocument/didClose","params":{"textDocument":{"uri":uri_of(&w.uris[*uri])}}}),
    Msg::Save { uri } => json!({"jsonrpc":"2.0","method":"textDocument/didSave","params":{"textDocument":{"uri":uri_of(&w.uris[*uri])}}}),
    Msg::CodeAction { uri } => {
      *next_id += 1;
      json!({"jsonrpc":"2.0","id":*next_id,"method":"textDocument/codeAction","params":{"textDocument":{"uri":uri_of(&w.uris[*uri])},"range":{"start":{"line":0,"character":0},"end":{"line":0,"character":1}},"context":{"diagnostics":[],"only":["source.fixAll"]}}})
    }
    Msg::SwitchWorkspace => json!({"jsonrpc":"2.0","method":"workspace/didChangeWorkspaceFolders","params":{"event":{"added":[],"removed":[]}},"agsim_switch":true}),
    Msg::FixAll { uri } => {
      *next_id += 1;
      json!({"jsonrpc":"2.0","id":*next_id,"method":"workspace/executeCommand","params":{"command":"ast-grep.applyAllFixes","arguments":[{"uri":uri_of(&w.uris[*uri]),"languageId":"x","version":1,"text":""}]}})
    }
  }
}

pub struct Knobs {
  /// 0 one message, 1 small byte chunks, 2 bursts, 3 mixed
  pub feed_style: usize,
  /// 0 unbounded, 1 small grants, 2 stall until all input is in, 3 mixed
  pub out_style: usize,
  pub reply_mix: usize,
}

/// Run one history. `script`: Some = follow it (replay), None = draw decisions from `rng`.
pub fn simulate(w: &LspWorld, script: Option<&Script>, seed: u64) -> SimResult {
  let mut res = SimResult::default();
  let mut chunk = Rng::stream(seed, "chunk");
  let mut fault = Rng::stream(seed, "fault");
  let mut knobs = Knobs { feed_style: chunk.below(4), out_style: chunk.below(4), reply_mix: fault.below(4) };
  if w.history.iter().any(|m| matches!(m, Msg::SwitchWorkspace)) {
    // which folder a didOpen is judged against must be unambiguous: one message at a time,
    // the editor reads everything and answers at once
    knobs = Knobs { feed_style: 0, out_style: 0, reply_mix: 0 };
  }
  let root = root_dir();
  std::env::set_current_dir(&root).expect("chdir");
  let pin = Rc::new(RefCell::new(Pipe::default()));
  let pout = Rc::new(RefCell::new(Pipe::default()));
  ast_grep_lsp::verif::enable(true);
  let fut = ast_grep::verif::lsp_serve(None, SimIn(pin.clone()), SimOut(pout.clone()));
  let mut fut: Pin<Box<dyn Future<Output = anyhow::Result<()>>>> = Box::pin(fut);
  let flag = Arc::new(Flag(AtomicBool::new(true)));
  let waker = Waker::from(flag.clone());
  let mut cx = Context::from_waker(&waker);

  // editor state
  let mut outbuf: Vec<u8> = vec![];
  let mut next_id: i64 = 1;
  let mut queue: VecDeque<Value> = VecDeque::new(); // whole client messages not yet serialised
  let mut delayed: Vec<(usize, Value)> = vec![]; // (messages still to pass, reply)
  let mut pending_bytes: VecDeque<u8> = VecDeque::new();
  let mut script_pos = 0usize;
  let mut done = false;
  // false: the project directory is the workspace folder; true: the sibling directory is
  let ws_is_outside = std::cell::Cell::new(false);

  macro_rules! poll_until_quiet {
    () => {{
      while flag.0.swap(false, Ordering::SeqCst) && !done {
        res.polls += 1;
        if res.polls > POLL_CAP {
          res.abort = Some(("UNBOUNDED".into(), format!("more than {POLL_CAP} executor polls")));
          break;
        }
        let r = std::panic::catch_unwind(std::panic::AssertUnwindSafe(|| fut.as_mut().poll(&mut cx)));
        match r {
          Ok(Poll::Ready(r)) => {
            done = true;
            res.completed = true;
            res.events.push(format!("serve-returned {}", if r.is_ok() { "ok" } else { "err" }));
            if let Err(e) = r {
              res.abort = Some(("SERVER-FAILED".into(), format!("lsp_serve returned an error: {e}")));
            }
          }
          Ok(Poll::Pending) => {}
          Err(p) => {
            done = true;
            let msg = crate::driver::panic_msg(&p);
            if let Some(site) = ast_grep_lsp::verif::take_deadlock() {
              res.abort = Some(("DEADLOCK".into(), format!("handler at `{site}` needs the document-map shard lock held by a suspended handler of the same thread")));
            } else {
              res.abort = Some(("PANIC".into(), format!("the server panicked: {msg}")));
            }
          }
        }
        if pout.borrow().blocked {
          res.backpressure_polls += 1;
        }
      }
    }};
  }

  // drain output, parse, let the editor react. Returns Err on malformed output.
  macro_rules! editor_react {
    () => {{
      let drained: Vec<u8> = pout.borrow_mut().buf.drain(..).collect();
      res.bytes_out += drained.len();
      outbuf.extend(drained);
      match parse_frames(&mut outbuf) {
        Err(e) => {
          res.abort = Some(("MALFORMED-OUTPUT".into(), e));
        }
        Ok(msgs) => {
          for m in msgs {
            let method = m.get("method").and_then(|x| x.as_str()).map(|s| s.to_string());
            let id = m.get("id").cloned();
            match (method, id) {
              (Some(method), Some(id)) => {
                // server -> client request
                let idx = res.server_requests;
                res.server_requests += 1;
                let pol = match script {
                  Some(s) => s.replies.get(idx).cloned().unwrap_or(ReplyPolicy::Now),
                  None => match (knobs.reply_mix, fault.below(10)) {
                    (0, _) => ReplyPolicy::Now,
                    (_, 0..=4) => ReplyPolicy::Now,
                    (_, 5..=7) => ReplyPolicy::After(fault.range(1, 4)),
                    (_, 8) => ReplyPolicy::Error,
                    _ => ReplyPolicy::Null,
                  },
                };
                res.script.replies.push(pol.clone());
                let result = if method == "workspace/workspaceFolders" {
                  let folder = if ws_is_outside.get() { outside_dir() } else { root.clone() };
                  json!([{"uri": format!("file://{}", folder.display()), "name": "w"}])
                } else if method == "workspace/applyEdit" {
                  json!({"applied": true})
                } else {
                  Value::Null
                };
                let reply = match &pol {
                  ReplyPolicy::Error => json!({"jsonrpc":"2.0","id":id,"error":{"code":-32603,"message":"editor says no"}}),
                  ReplyPolicy::Null => json!({"jsonrpc":"2.0","id":id,"result":Value::Null}),
                  _ => json!({"jsonrpc":"2.0","id":id,"result":result}),
                };
                res.events.push(format!("server-request {method} reply={pol:?}"));
                match pol {
                  ReplyPolicy::After(j) => delayed.push((j, reply)),
                  _ => queue.push_front(reply),
                }
              }
              (Some(method), None) => {
                if method == "textDocument/publishDiagnostics" {
                  let p = &m["params"];
                  let mut diags: Vec<Diag> = p["diagnostics"]
                    .as_array()
                    .cloned()
                    .unwrap_or_default()
                    .iter()
                    .map(|d| Diag {
                      code: d["code"].as_str().unwrap_or("").to_string(),
                      sl: d["range"]["start"]["line"].as_u64().unwrap_or(0),
                      sc: d["range"]["start"]["character"].as_u64().unwrap_or(0),
                      el: d["range"]["end"]["line"].as_u64().unwrap_or(0),
                      ec: d["range"]["end"]["character"].as_u64().unwrap_or(0),
                      message: d["message"].as_str().unwrap_or("").to_string(),
                      severity: d["severity"].as_u64().unwrap_or(0),
                    })
                    .collect();
                  diags.sort();
                  let uri = p["uri"].as_str().unwrap_or("").to_string();
                  let version = p["version"].as_i64();
                  res.events.push(format!("publish {} v={version:?} n={}", short(&uri), diags.len()));
                  res.publishes.push(Publish { uri, version, diags });
                } else {
                  res.events.push(format!("notify {method}"));
                }
              }
              (None, Some(id)) => {
                *res.responses.entry(id.to_string()).or_insert(0) += 1;
                res.events.push(format!("response id={id}"));
              }
              _ => {
                res.abort = Some(("MALFORMED-OUTPUT".into(), format!("server sent a message that is neither request, notification nor response: {m}")));
              }
            }
          }
        }
      }
    }};
  }

  // serialise the next client message into the byte stream; returns false if none left
  macro_rules! pull_message {
    () => {{
      // delayed replies whose distance ran out go first
      let mut took = false;
      if let Some(pos) = delayed.iter().position(|d| d.0 == 0) {
        let (_, r) = delayed.remove(pos);
        pending_bytes.extend(frame(&r));
        took = true;
      } else if let Some(mut m) = queue.pop_front() {
        if m.get("agsim_switch").is_some() {
          ws_is_outside.set(!ws_is_outside.get());
          if let Some(o) = m.as_object_mut() {
            o.remove("agsim_switch");
          }
          res.events.push(format!("switch-workspace outside={}", ws_is_outside.get()));
        }
        let is_history = m.get("method").is_some();
        if is_history {
          for d in delayed.iter_mut() {
            d.0 = d.0.saturating_sub(1);
          }
          if let Some(id) = m.get("id") {
            res.client_requests.push(id.to_string());
          }
        }
        pending_bytes.extend(frame(&m));
        took = true;
      } else if !delayed.is_empty() {
        let (_, r) = delayed.remove(0);
        pending_bytes.extend(frame(&r));
        took = true;
      }
      took
    }};
  }

  macro_rules! feed_bytes {
    ($n:expr) => {{
      let n: usize = $n;
      let mut p = pin.borrow_mut();
      let k = n.min(pending_bytes.len());
      for _ in 0..k {
        p.buf.push_back(pending_bytes.pop_front().unwrap());
      }
      res.bytes_in += k;
      if let Some(w) = p.waker.take() {
        w.wake();
      }
    }};
  }

  // ---- phase 1: handshake (protocol requires the initialize response before anything else)
  let init = json!({"jsonrpc":"2.0","id":1,"method":"initialize","params":{"processId":null,"rootUri":format!("file://{}", root.display()),"capabilities":{"workspace":{"workspaceFolders":true},"textDocument":{"codeAction":{"codeActionLiteralSupport":{"codeActionKind":{"valueSet":["quickfix","source.fixAll"]}}}}},"workspaceFolders":[{"uri":format!("file://{}", root.display()),"name":"w"}]}});
  res.client_requests.push("1".into());
  pending_bytes.extend(frame(&init));
  feed_bytes!(usize::MAX);
  poll_until_quiet!();
  editor_react!();
  if res.abort.is_none() && res.responses.get("1").copied().unwrap_or(0) != 1 {
    res.abort = Some(("NO-INITIALIZE-RESPONSE".into(), "the server did not answer `initialize`".into()));
  }
  pending_bytes.extend(frame(&json!({"jsonrpc":"2.0","method":"initialized","params":{}})));
  feed_bytes!(usize::MAX);
  poll_until_quiet!();
  editor_react!();
  res.events.push("handshake-done".into());

  // ---- phase 2: the history under simulated transport timing
  for m in &w.history {
    queue.push_back(client_message(w, m, &mut next_id));
  }
  if let Some(s) = script {
    let _ = s;
  } else {
    // initial output budget according to the style
    let b = match knobs.out_style {
      0 => None,
      1 => Some(chunk.range(0, 200)),
      2 => Some(0),
      _ => {
        if chunk.chance(0.5) {
          None
        } else {
          Some(chunk.range(0, 2000))
        }
      }
    };
    pout.borrow_mut().budget = b;
    if let Some(n) = b {
      res.script.actions.push(Action::Grant { n: 0 }); // marks "bounded from the start"
      res.script.actions.push(Action::Grant { n });
    }
  }
  if let Some(s) = script {
    // a script that starts with Grant{0} means the output starts bounded at 0
    if matches!(s.actions.first(), Some(Action::Grant { n: 0 })) {
      pout.borrow_mut().budget = Some(0);
      script_pos = 1;
      res.script.actions.push(Action::Grant { n: 0 });
    }
  }
  let mut guard = 0u64;
  while res.abort.is_none() && !done {
    guard += 1;
    if guard > 200_000 {
      res.abort = Some(("UNBOUNDED".into(), "simulator loop did not terminate".into()));
      break;
    }
    let input_left = !pending_bytes.is_empty() || !queue.is_empty() || !delayed.is_empty();
    let out_blocked = pout.borrow().blocked && pout.borrow().budget == Some(0);
    let bounded = pout.borrow().budget.is_some();
    if !input_left && !bounded {
      break; // everything delivered, output unbounded, executor quiescent
    }
    // choose the next action
    let action = match script {
      Some(s) if script_pos < s.actions.len() => {
        let a = s.actions[script_pos].clone();
        script_pos += 1;
        a
      }
      Some(_) => {
        // script exhausted: default rule
        if input_left {
          Action::Burst { n: usize::MAX }
        } else {
          Action::Grant { n: usize::MAX }
        }
      }
      None => {
        let stall = knobs.out_style == 2 && input_left; // stalled editor: reads nothing while it still types
        let grant = bounded && !stall && (out_blocked || !input_left || chunk.chance(0.3));
        if grant {
          if !input_left && (knobs.out_style != 1 || chunk.chance(0.2)) {
            Action::Grant { n: usize::MAX }
          } else if knobs.out_style == 1 {
            Action::Grant { n: chunk.range(1, 300) }
          } else if chunk.chance(0.25) {
            Action::Grant { n: usize::MAX }
          } else {
            Action::Grant { n: chunk.range(1, 6000) }
          }
        } else if input_left {
          match knobs.feed_style {
            0 => Action::Burst { n: 1 },
            1 => Action::Feed { n: chunk.range(1, 64) },
            2 => Action::Burst { n: chunk.range(2, 6) },
            _ => match chunk.below(4) {
              0 => Action::Burst { n: 1 },
              1 => Action::Feed { n: chunk.range(1, 200) },
              2 => Action::Burst { n: chunk.range(2, 8) },
              _ => Action::Feed { n: chunk.range(1, 20) },
            },
          }
        } else {
          Action::Grant { n: usize::MAX }
        }
      }
    };
    res.script.actions.push(action.clone());
    match action {
      Action::Feed { n } => {
        if pending_bytes.is_empty() {
          pull_message!();
        }
        feed_bytes!(n);
        res.events.push(format!("feed {n}"));
      }
      Action::Burst { n } => {
        let mut c = 0usize;
        while c < n {
          if !pull_message!() {
            break;
          }
          c += 1;
        }
        feed_bytes!(usize::MAX);
        res.events.push(format!("burst {c}"));
        if c >= 2 {
          res.max_inflight_hint = res.max_inflight_hint.max(c);
        }
      }
      Action::Grant { n } => {
        let mut p = pout.borrow_mut();
        if n == usize::MAX {
          p.budget = None;
        } else if let Some(b) = p.budget.as_mut() {
          *b = b.saturating_add(n);
        }
        if let Some(w) = p.waker.take() {
          w.wake();
        }
        drop(p);
        res.events.push(format!("grant {}", if n == usize::MAX { "unbounded".to_string() } else { n.to_string() }));
      }
    }
    poll_until_quiet!();
    editor_react!();
  }
  // replies produced by the last reactions must still be delivered ("faults stop")
  let mut settle = 0;
  while res.abort.is_none() && !done && (!queue.is_empty() || !delayed.is_empty() || !pending_bytes.is_empty()) && settle < 10_000 {
    settle += 1;
    pout.borrow_mut().budget = None;
    if let Some(w) = pout.borrow_mut().waker.take() {
      w.wake();
    }
    while pull_message!() {}
    feed_bytes!(usize::MAX);
    poll_until_quiet!();
    editor_react!();
  }
  res.events.push("history-delivered".into());
  // ---- phase 3: the editor closes the pipe; a server with no stuck handler now returns
  if res.abort.is_none() && !done {
    {
      let mut p = pin.borrow_mut();
      p.closed = true;
      if let Some(w) = p.waker.take() {
        w.wake();
      }
    }
    flag.0.store(true, Ordering::SeqCst);
    poll_until_quiet!();
    editor_react!();
    if res.abort.is_none() && !done {
      res.abort = Some(("HANDLER-STUCK".into(), "after the whole history and every reply were delivered, output unbounded and stdin closed, the server did not finish: a handler is still suspended".into()));
    }
  }
  ast_grep_lsp::verif::enable(false);
  drop(fut);
  res
}

fn short(uri: &str) -> String {
  uri.rsplit('/').next().unwrap_or(uri).to_string()
}

// ---------------------------------------------------------------------------------------
// reference model and oracle

#[derive(Default, Clone, Debug)]
struct Session {
  open: bool,
  version: i32,
  text: String,
  /// the document was inside the editor's workspace folder when it was opened
  inside: bool,
}

/// expected diagnostics of (relative path, text) according to the CLI
fn expected_from_cli(project: &CliWorld, rel: &str, text: &str, cache: &mut BTreeMap<(String, u64), Result<Vec<Diag>, String>>) -> Result<Vec<Diag>, String> {
  let key = (rel.to_string(), fnv1a(text.as_bytes()));
  if let Some(v) = cache.get(&key) {
    return v.clone();
  }
  let root = root_dir();
  let p = root.join(rel);
  if let Some(parent) = p.parent() {
    let _ = std::fs::create_dir_all(parent);
  }
  std::fs::write(&p, text).map_err(|e| e.to_string())?;
  let args: Vec<String> = ["sg", "scan", "--json=stream", "-j", "1", rel].iter().map(|s| s.to_string()).collect();
  let cfg = SchedCfg { seed: 0, policy: Policy::Canonical, k: 1, forced: None, forced_picks: None, faults: vec![], hash_seed: 7 };
  let out = cli_run::run_cli(&root, &args, 7, Some(cfg));
  let _ = std::fs::remove_file(&p);
  let cmd = Cmd { args: vec![], mode: "stream".into(), inspect: false, is_scan: true };
  let r = (|| {
    let obs = parse_output(&cmd, &out)?;
    if let Some(f) = obs.failed {
      return Err(format!("CLI failed: {f}"));
    }
    let rules = project.all_rules();
    let mut v = vec![];
    for rec in &obs.records {
      let j: Value = serde_json::from_str(rec).map_err(|e| e.to_string())?;
      let id = j["ruleId"].as_str().unwrap_or("").to_string();
      let msg = j["message"].as_str().unwrap_or("");
      let mut message = if msg.is_empty() { id.clone() } else { msg.to_string() };
      if let Some(n) = j.get("note").and_then(|x| x.as_str()) {
        message = format!("{message}\n\n{n}");
      }
      let _ = &rules;
      let severity = match j["severity"].as_str().unwrap_or("") {
        "error" => 1,
        "warning" => 2,
        "info" => 3,
        "hint" => 4,
        _ => 0,
      };
      v.push(Diag {
        code: id,
        sl: j["range"]["start"]["line"].as_u64().unwrap_or(0),
        sc: j["range"]["start"]["column"].as_u64().unwrap_or(0),
        el: j["range"]["end"]["line"].as_u64().unwrap_or(0),
        ec: j["range"]["end"]["column"].as_u64().unwrap_or(0),
        message,
        severity,
      });
    }
    v.sort();
    Ok(v)
  })();
  cache.insert(key, r.clone());
  r
}

fn has_lang(rel: &str) -> bool {
  let ext = rel.rsplit('.').next().unwrap_or("");
  matches!(ext, "ts" | "js" | "py" | "rs" | "go" | "css" | "html" | "java" | "c" | "rb")
}

pub const KF_UNUSED: &str = "unused-suppression-when-no-rule-applies";

/// Signature of the listed finding: the server published nothing for the text while the CLI
/// reports only `unused-suppression` hints (which it emits even when no project rule
/// applies to the path; the server returns early in that case).
fn is_kf_unused(lsp: &[Diag], cli: &[Diag]) -> bool {
  lsp.is_empty() && !cli.is_empty() && cli.iter().all(|d| d.code == "unused-suppression")
}

pub fn check(w: &LspWorld, sim: &SimResult, known: &KnownFindings, met: &mut Vec<String>) -> Result<Option<(String, String)>, String> {
  if let Some((c, d)) = &sim.abort {
    return Ok(Some((c.clone(), d.clone())));
  }
  // reference model: what the client sent
  let mut sessions: Vec<Session> = vec![Session::default(); w.uris.len()];
  let mut sent: Vec<BTreeMap<i32, Vec<String>>> = vec![BTreeMap::new(); w.uris.len()];
  let mut ws_outside = false;
  for m in &w.history {
    match m {
      Msg::SwitchWorkspace => ws_outside = !ws_outside,
      Msg::Open { uri, version, text } => {
        sessions[*uri] = Session { open: true, version: *version, text: text.clone(), inside: w.uris[*uri].inside != ws_outside };
        sent[*uri].entry(*version).or_default().push(text.clone());
      }
      Msg::Change { uri, version, text } => {
        sent[*uri].entry(*version).or_default().push(text.clone());
        let s = &mut sessions[*uri];
        if s.open && *version >= s.version {
          s.version = *version;
          s.text = text.clone();
        }
      }
      Msg::Close { uri } => sessions[*uri].open = false,
      _ => {}
    }
  }
  let mut cache = BTreeMap::new();
  // every publish is self-consistent: a version the client sent, with that text's findings
  for p in &sim.publishes {
    let Some(ui) = w.uris.iter().position(|u| uri_of(u) == p.uri) else {
      return Ok(Some(("PUBLISH-FOR-UNKNOWN-URI".into(), format!("diagnostics published for {} which the client never mentioned", p.uri))));
    };
    let Some(v) = p.version else {
      return Ok(Some(("PUBLISH-WITHOUT-VERSION".into(), format!("diagnostics for {} carry no version", p.uri))));
    };
    let Some(texts) = sent[ui].get(&(v as i32)) else {
      return Ok(Some(("PUBLISH-UNKNOWN-VERSION".into(), format!("diagnostics for {} carry version {v}, which the client never sent for it", short(&p.uri)))));
    };
    // version numbers restart when a document is re-opened: the publish must fit one of the
    // texts the client sent under that number
    let mut ok = false;
    let mut kf = false;
    let mut first: Option<Vec<Diag>> = None;
    for text in texts {
      let exp = expected_from_cli(&w.project, &cli_path(&w.uris[ui]), text, &mut cache)?;
      if exp == p.diags {
        ok = true;
      } else if is_kf_unused(&p.diags, &exp) && known.is_open("C09", KF_UNUSED).is_some() {
        kf = true;
      }
      if first.is_none() {
        first = Some(exp);
      }
    }
    if !ok && kf {
      let line = format!("{KF_UNUSED} the server publishes no `unused-suppression` hint for a document no project rule applies to, `sg scan` does");
      if !met.contains(&line) {
        met.push(line);
      }
      continue;
    }
    if !ok {
      let exp = first.unwrap_or_default();
      return Ok(Some((
        "LSP-CLI-MISMATCH".into(),
        format!(
          "{} v{v}: the server published {} diagnostics, `sg scan --json` on the same text reports {}; first difference: {}",
          w.uris[ui].rel,
          p.diags.len(),
          exp.len(),
          first_diff(&p.diags, &exp)
        ),
      )));
    }
  }
  // history clause: the last publish of every open, in-workspace document is its newest text
  for (ui, s) in sessions.iter().enumerate() {
    let u = &w.uris[ui];
    if !s.open || !s.inside || !has_lang(&u.rel) {
      continue;
    }
    let exp = expected_from_cli(&w.project, &cli_path(u), &s.text, &mut cache)?;
    let last = sim.publishes.iter().rev().find(|p| p.uri == uri_of(u));
    match last {
      None => {
        // the server publishes nothing when no rule applies to the path
        let applies = !exp.is_empty();
        if applies {
          return Ok(Some((
            "LAST-PUBLISH-STALE".into(),
            format!("{}: the client's newest text is version {} with {} findings, but nothing was ever published for it", u.rel, s.version, exp.len()),
          )));
        }
      }
      Some(p) => {
        if p.version != Some(s.version as i64) {
          // tolerated only if that version's findings equal the newest text's findings AND ... no: the version is part of the clause
          return Ok(Some((
            "LAST-PUBLISH-STALE".into(),
            format!("{}: the diagnostics last published carry version {:?} but the highest version received is {}", u.rel, p.version, s.version),
          )));
        }
        if p.diags != exp && !(is_kf_unused(&p.diags, &exp) && known.is_open("C09", KF_UNUSED).is_some()) {
          return Ok(Some(("LAST-PUBLISH-WRONG".into(), format!("{}: last publish has version {} but not its findings", u.rel, s.version))));
        }
      }
    }
  }
  // the CLI front ends agree with each other on the newest text of one document per history
  if let Some((ui, sess)) = sessions.iter().enumerate().find(|(ui, s)| s.open && s.inside && w.uris[*ui].inside && has_lang(&w.uris[*ui].rel)) {
    if let Some(v) = frontends_check(w, &w.uris[ui], &sess.text)? {
      return Ok(Some(v));
    }
  }
  // every client request was answered exactly once
  for id in &sim.client_requests {
    let n = sim.responses.get(id).copied().unwrap_or(0);
    if n != 1 {
      return Ok(Some(("REQUEST-NOT-ANSWERED-ONCE".into(), format!("client request id={id} got {n} responses"))));
    }
  }
  Ok(None)
}

// ---------------------------------------------------------------------------------------
// stateless clause of C09 on texts that occur in simulated histories: the CLI front ends
// agree with each other (the LSP is compared with `scan --json=stream` above)

fn cli_records(args: &[&str], mode: &str, stdin: Option<&str>) -> Result<Vec<Value>, String> {
  let root = root_dir();
  let argv: Vec<String> = args.iter().map(|s| s.to_string()).collect();
  let cfg = SchedCfg { seed: 0, policy: Policy::Canonical, k: 1, forced: None, forced_picks: None, faults: vec![], hash_seed: 7 };
  let out = cli_run::run_cli_full(&root, &argv, 7, Some(cfg), false, stdin.map(|s| s.as_bytes().to_vec()));
  let cmd = Cmd { args: vec![], mode: mode.into(), inspect: false, is_scan: true };
  let obs = parse_output(&cmd, &out)?;
  if let Some(f) = obs.failed {
    return Err(format!("`{}` failed: {f}", args.join(" ")));
  }
  if mode == "lines" {
    return Ok(obs.records.into_iter().map(Value::String).collect());
  }
  obs.records.iter().map(|r| serde_json::from_str::<Value>(r).map_err(|e| e.to_string())).collect()
}

/// standard output of a command, in the order printed
fn cli_stdout(args: &[&str]) -> Result<String, String> {
  let root = root_dir();
  let argv: Vec<String> = args.iter().map(|s| s.to_string()).collect();
  let cfg = SchedCfg { seed: 0, policy: Policy::Canonical, k: 1, forced: None, forced_picks: None, faults: vec![], hash_seed: 7 };
  let out = cli_run::run_cli_full(&root, &argv, 7, Some(cfg), false, None);
  let text = String::from_utf8(out.stdout.clone()).map_err(|e| format!("stdout is not UTF-8: {e}"))?;
  if let (Err(e), None) = (&out.result, out.diagnostic_errors()) {
    if text.trim().is_empty() {
      return Err(format!("`{}` failed: {e}", args.join(" ")));
    }
  }
  Ok(text)
}

/// (rule id, start line, end line, message) of a JSON record
fn gh_key(v: &Value) -> String {
  format!(
    "{}|{}|{}|{}",
    v["ruleId"].as_str().unwrap_or(""),
    v["range"]["start"]["line"].as_u64().unwrap_or(0) + 1,
    v["range"]["end"]["line"].as_u64().unwrap_or(0) + 1,
    v["message"].as_str().unwrap_or("")
  )
}

pub static FE_DOCS: std::sync::atomic::AtomicU64 = std::sync::atomic::AtomicU64::new(0);
pub static FE_GITHUB: std::sync::atomic::AtomicU64 = std::sync::atomic::AtomicU64::new(0);
pub static FE_STDIN: std::sync::atomic::AtomicU64 = std::sync::atomic::AtomicU64::new(0);
pub static FE_STDIN_LIMITED: std::sync::atomic::AtomicU64 = std::sync::atomic::AtomicU64::new(0);
pub static FE_VERDICTS: std::sync::atomic::AtomicU64 = std::sync::atomic::AtomicU64::new(0);

pub fn frontends_check(w: &LspWorld, u: &UriSpec, text: &str) -> Result<Option<(String, String)>, String> {
  FE_DOCS.fetch_add(1, Ordering::Relaxed);
  let root = root_dir();
  let rel = cli_path(u);
  let p = root.join(&rel);
  if let Some(parent) = p.parent() {
    let _ = std::fs::create_dir_all(parent);
  }
  std::fs::write(&p, text).map_err(|e| e.to_string())?;
  let res = (|| -> Result<Option<(String, String)>, String> {
    // 1. the three JSON styles list the same records
    let stream = cli_records(&["sg", "scan", "--json=stream", "-j", "1", &rel], "stream", None)?;
    let canon = |v: &[Value]| {
      let mut x: Vec<String> = v.iter().map(|r| serde_json::to_string(r).unwrap()).collect();
      x.sort();
      x
    };
    for (style, mode) in [("--json=compact", "compact"), ("--json=pretty", "pretty")] {
      let other = cli_records(&["sg", "scan", style, "-j", "1", &rel], mode, None)?;
      if canon(&other) != canon(&stream) {
        return Ok(Some(("JSON-STYLES-DIFFER".into(), format!("{}: `scan {style}` lists {} records, `scan --json=stream` {}", u.rel, other.len(), stream.len()))));
      }
    }
    // 2. the GitHub format lists the same findings (it omits hints)
    let gh = cli_stdout(&["sg", "scan", "--format", "github", "-j", "1", &rel])?;
    let mut want: Vec<String> = stream
      .iter()
      .filter(|r| r["severity"].as_str() != Some("hint"))
      .map(|r| {
        let level = match r["severity"].as_str().unwrap_or("") {
          "error" => "error",
          "warning" => "warning",
          _ => "notice",
        };
        let k = gh_key(r);
        let mut it = k.splitn(4, '|');
        let (id, l, el, msg) = (it.next().unwrap(), it.next().unwrap(), it.next().unwrap(), it.next().unwrap());
        format!("::{level} file={rel},line={l},endLine={el},title={id}::{msg}")
      })
      .collect();
    want.sort();
    // a message with a line break spans several output lines: they belong to the annotation above
    let mut got: Vec<String> = vec![];
    for l in gh.split('\n').filter(|l| !l.is_empty()) {
      let starts = ["::error ", "::warning ", "::notice "].iter().any(|p| l.starts_with(p));
      match got.last_mut() {
        Some(last) if !starts => {
          last.push('\n');
          last.push_str(l);
        }
        _ => got.push(l.to_string()),
      }
    }
    got.sort();
    FE_GITHUB.fetch_add(want.len() as u64, Ordering::Relaxed);
    // (blank lines inside a message are not told apart from the blank lines between lines)
    let no_blank = |v: &mut Vec<String>| {
      for x in v.iter_mut() {
        *x = x.split('\n').filter(|l| !l.trim().is_empty()).collect::<Vec<_>>().join("\n");
      }
      v.sort();
    };
    no_blank(&mut got);
    no_blank(&mut want);
    if got != want {
      let d = got.iter().find(|g| !want.contains(g)).or(want.iter().find(|x| !got.contains(x))).cloned().unwrap_or_default();
      return Ok(Some(("GITHUB-FORMAT-DIFFERS".into(), format!("{}: `scan --format github` prints {} annotations, the JSON records call for {}; e.g. {}", u.rel, got.len(), want.len(), d))));
    }
    // 3. --stdin with one rule file vs the same rule file on the file
    let lang = {
      let ext = u.rel.rsplit('.').next().unwrap_or("");
      LSP_LANGS.iter().find(|x| x.1 == ext).map(|x| x.0)
    };
    if let Some(lang) = lang {
      for d in &w.project.rule_dirs {
        for f in &d.files {
          // `scan -r FILE` knows no global utilities: leave out rule files that need one
          let globals: Vec<String> = w.project.util_dirs.iter().flat_map(|d| d.files.iter().flat_map(|f| f.docs.iter().map(|r| r.id.clone()))).collect();
          let needs_global = |r: &crate::rules::RuleSpec| {
            let mut text = r.rule.clone();
            for (_, u) in &r.utils {
              text.push_str(u);
            }
            globals.iter().any(|g| text.contains(&format!("matches: {g}\n")))
          };
          let usable = !f.docs.is_empty() && f.docs.iter().all(|r| r.language == lang && r.severity.as_deref() != Some("off") && !needs_global(r));
          // a rule limited by `files:`/`ignores:` applies to the file only where its globs say so, while
          // standard input has no path to exclude by: there every finding on the file must also be
          // listed for standard input (and the two lists are equal for the rules without globs)
          let path_limited = f.docs.iter().any(|r| r.files.is_some() || r.ignores.is_some());
          if !usable {
            continue;
          }
          let rf = format!("{}/{}", d.name, f.name);
          let on_file = cli_records(&["sg", "scan", "-r", &rf, "--json=stream", "-j", "1", &rel], "stream", None)?;
          let on_stdin = cli_records(&["sg", "scan", "-r", &rf, "--json=stream", "--stdin"], "stream", Some(text))?;
          let strip = |v: &[Value]| {
            let mut x: Vec<String> = v
              .iter()
              .map(|r| {
                let mut r = r.clone();
                if let Some(o) = r.as_object_mut() {
                  o.remove("file");
                }
                serde_json::to_string(&r).unwrap()
              })
              .collect();
            x.sort();
            x
          };
          FE_STDIN.fetch_add(1, Ordering::Relaxed);
          let (sf, ss) = (strip(&on_file), strip(&on_stdin));
          let differs = if path_limited {
            let limited: Vec<&str> = f.docs.iter().filter(|r| r.files.is_some() || r.ignores.is_some()).map(|r| r.id.as_str()).collect();
            let free = |v: &[String]| v.iter().filter(|x| !limited.iter().any(|id| x.contains(&format!("\"ruleId\":\"{id}\"")))).cloned().collect::<Vec<_>>();
            FE_STDIN_LIMITED.fetch_add(1, Ordering::Relaxed);
            sf.iter().any(|x| !ss.contains(x)) || free(&sf) != free(&ss)
          } else {
            sf != ss
          };
          if differs {
            return Ok(Some(("STDIN-DIFFERS".into(), format!("{}: `scan -r {rf} --stdin` lists {} records, the same rule file on the file {}", u.rel, on_stdin.len(), on_file.len()))));
          }
          // 4. `sg test` verdict per rule of this file: valid = no finding, invalid = at least one
          if !text.contains("ast-grep-ignore") {
            let tdir = root.join("frontends-tests");
            let _ = std::fs::remove_dir_all(&tdir);
            std::fs::create_dir_all(&tdir).map_err(|e| e.to_string())?;
            // more test documents than `sg test` has worker threads (it splits them in chunks)
            let copies = (20 / f.docs.len().max(1)).max(1);
            for c in 0..copies {
              for r in &f.docs {
                // `sg test` knows no path either
                let reference = if path_limited { &on_stdin } else { &on_file };
                let n = reference.iter().filter(|x| x["ruleId"].as_str() == Some(r.id.as_str())).count();
                let key = if n == 0 { "valid" } else { "invalid" };
                let other = if n == 0 { "invalid" } else { "valid" };
                let y = format!("id: {}\n{key}:\n- {}\n{other}: []\n", r.id, serde_json::to_string(text).unwrap());
                std::fs::write(tdir.join(format!("{}-{c}-test.yml", r.id)), y).map_err(|e| e.to_string())?;
              }
            }
            FE_VERDICTS.fetch_add(f.docs.len() as u64, Ordering::Relaxed);
            let argv: Vec<String> = ["sg", "test", "-t", "frontends-tests", "--skip-snapshot-tests"].iter().map(|s| s.to_string()).collect();
            let out = cli_run::run_cli(&root, &argv, 7, None);
            let _ = std::fs::remove_dir_all(&tdir);
            if let Err(e) = &out.result {
              if e.starts_with("test failed") {
                return Ok(Some(("TEST-VERDICT-DIFFERS".into(), format!("{}: `sg test` does not confirm what `sg scan -r {rf}` reports for the same text ({e})", u.rel))));
              }
            } else {
              // every test document must have received a verdict
              let so = out.stdout_str();
              let passed: Option<usize> = so.lines().rev().find_map(|l| {
                let i = l.find(" passed")?;
                l[..i].rsplit(|c: char| !c.is_ascii_digit()).next()?.parse().ok()
              });
              let want = copies * f.docs.len();
              if let Some(p) = passed {
                if p != want {
                  return Ok(Some(("TEST-VERDICT-MISSING".into(), format!("{}: `sg test` reports {p} passed test documents, {want} were given", u.rel))));
                }
              }
            }
          }
          return Ok(None); // one rule file per document is enough
        }
      }
    }
    Ok(None)
  })();
  let _ = std::fs::remove_file(&p);
  res
}

fn first_diff(a: &[Diag], b: &[Diag]) -> String {
  for x in a {
    if !b.contains(x) {
      return format!("only LSP: {x:?}");
    }
  }
  for x in b {
    if !a.contains(x) {
      return format!("only CLI: {x:?}");
    }
  }
  "multiplicity".into()
}

// ---------------------------------------------------------------------------------------
// generation

const LSP_LANGS: &[(&str, &str)] = &[("TypeScript", "ts"), ("JavaScript", "js"), ("Python", "py"), ("Rust", "rs"), ("Go", "go"), ("Css", "css")];

fn gen_text(r: &mut Rng, lang: &str, allow_large: bool) -> String {
  if r.chance(0.03) {
    // nothing but blanks: not an empty file, and the root node still exists
    return r.pick(&["\n", "  \n", "\n\n  \n", " "]).to_string();
  }
  if allow_large && r.chance(0.08) {
    // hundreds of findings: large frames create back-pressure
    let line = match lang {
      "Python" => "print(1)\n",
      "Rust" => "fn f() { let v = foo(1, 2).unwrap(); }\n",
      "Go" => "func f() { fmt.Println(1) }\n",
      "Css" => "a { color: red; }\n",
      _ => "console.log(1 == 2);\n",
    };
    let n = r.range(150, 400);
    let mut s = if lang == "Go" { "package main\n".to_string() } else { String::new() };
    for _ in 0..n {
      s.push_str(line);
    }
    return s;
  }
  cli_world::gen_source(r, lang)
}

/// What an editor sends after a keystroke or two: the previous text with one local change
/// (a line duplicated or removed, a character doubled, a snippet typed on a new line, a word renamed).
fn small_edit(r: &mut Rng, prev: &str, lang: &str) -> String {
  let lines: Vec<&str> = prev.split_inclusive('\n').collect();
  match r.below(5) {
    0 if !lines.is_empty() => {
      let i = r.below(lines.len());
      let dup = if lines[i].ends_with('\n') { lines[i].to_string() } else { format!("\n{}", lines[i]) };
      let mut out: String = lines[..=i].concat();
      out.push_str(&dup);
      out.push_str(&lines[i + 1..].concat());
      out
    }
    1 => {
      let idx: Vec<usize> = prev.char_indices().map(|(i, _)| i).collect();
      let i = idx[r.below(idx.len())];
      let ch = prev[i..].chars().next().unwrap();
      format!("{}{ch}{}", &prev[..i], &prev[i..])
    }
    2 if lines.len() > 1 => {
      let i = r.below(lines.len());
      lines.iter().enumerate().filter(|(k, _)| *k != i).map(|(_, l)| *l).collect()
    }
    3 => {
      let c = crate::corpus::corpus(if lang.is_empty() { "TypeScript" } else { lang });
      let i = r.below(lines.len() + 1);
      let mut out: String = lines[..i].concat();
      if !out.is_empty() && !out.ends_with('\n') {
        out.push('\n');
      }
      out.push_str(*r.pick(c.snippets));
      out.push('\n');
      out.push_str(&lines[i..].concat());
      out
    }
    _ => {
      let mut words: Vec<(usize, usize)> = vec![];
      let mut st: Option<usize> = None;
      for (i, ch) in prev.char_indices() {
        let a = ch.is_alphanumeric() || ch == '_';
        match (a, st) {
          (true, None) => st = Some(i),
          (false, Some(s0)) => {
            words.push((s0, i));
            st = None;
          }
          _ => {}
        }
      }
      if let Some(s0) = st {
        words.push((s0, prev.len()));
      }
      if words.is_empty() {
        return format!("{prev}x\n");
      }
      let (a, b) = words[r.below(words.len())];
      format!("{}{}{}", &prev[..a], r.pick(crate::corpus::WORDS), &prev[b..])
    }
  }
}

pub fn gen_world(seed: u64) -> LspWorld {
  let mut r = Rng::stream(seed, "world");
  let mut project = cli_world::gen_world(&mut r, &GenOpts { max_files: 0, allow_special: false, with_tests: false, fix_heavy: false, order_sensitive_rules: true, hard_links: false, injections: false, lang_globs: false });
  project.files.clear();
  project.ignore_file = None;
  let rule_langs = project.languages();
  let nuri = r.range(1, 3);
  let mut uris = vec![];
  for i in 0..nuri {
    let (lang, ext) = if r.chance(0.8) {
      let l = r.pick(&rule_langs).clone();
      match LSP_LANGS.iter().find(|x| x.0 == l) {
        Some(x) => (x.0.to_string(), x.1.to_string()),
        None => ("TypeScript".to_string(), "ts".to_string()),
      }
    } else if r.chance(0.3) {
      ("".to_string(), "txt".to_string())
    } else {
      let x = r.pick(LSP_LANGS);
      (x.0.to_string(), x.1.to_string())
    };
    let dir = *r.pick(&["", "src/", "src/deep/", "vendor/", "gen code/", "géné/", "src/gen code/"]);
    let _ = lang;
    uris.push(UriSpec { rel: format!("{dir}doc{i}.{ext}"), inside: !r.chance(0.12) });
  }
  let lang_of = |rel: &str| -> &'static str {
    let ext = rel.rsplit('.').next().unwrap_or("");
    LSP_LANGS.iter().find(|x| x.1 == ext).map(|x| x.0).unwrap_or("TypeScript")
  };
  // documents with hundreds of findings create back-pressure; with randomly generated rules
  // (nested relational rules) they would mostly create matching time, so not both at once
  let allow_large = !project.all_rules().iter().any(|x| x.id.starts_with("gen-") || x.id.starts_with("use-rg"));
  // protocol-valid history per URI, interleaved
  let mut history = vec![];
  let switch_world = r.chance(0.1);
  let mut open = vec![false; nuri];
  let mut top = vec![0i32; nuri];
  // the text sent last for each document: most changes are keystroke-sized edits of it
  let mut last_text: Vec<Option<String>> = vec![None; nuri];
  let n = r.range(2, 14);
  for _ in 0..n {
    let u = r.below(nuri);
    let lang = lang_of(&uris[u].rel);
    if !open[u] {
      top[u] += r.range(1, 3) as i32;
      let text = gen_text(&mut r, lang, allow_large);
      last_text[u] = Some(text.clone());
      history.push(Msg::Open { uri: u, version: top[u], text });
      open[u] = true;
      continue;
    }
    match r.below(20) {
      0..=11 => {
        // mostly increasing versions; now and then a stale one arrives late
        let stale = r.chance(0.2) && top[u] > 2;
        let version = if stale {
          // lower than something already sent, but never sent before
          let v = top[u] - 1;
          if history.iter().any(|m| matches!(m, Msg::Open{uri, version, ..} | Msg::Change{uri, version, ..} if *uri == u && *version == v)) {
            top[u] += 1;
            top[u]
          } else {
            v
          }
        } else {
          top[u] += r.range(1, 2) as i32 + if r.chance(0.3) { 1 } else { 0 };
          top[u]
        };
        let text = match &last_text[u] {
          // the same text again under a new version (a save hook that changed nothing, an undo/redo pair)
          Some(prev) if r.chance(0.08) => prev.clone(),
          Some(prev) if !prev.is_empty() && r.chance(0.5) => small_edit(&mut r, prev, lang),
          _ => gen_text(&mut r, lang, allow_large),
        };
        last_text[u] = Some(text.clone());
        history.push(Msg::Change { uri: u, version, text });
      }
      12 | 13 => {
        history.push(Msg::Close { uri: u });
        open[u] = false;
        // The re-open gets a version above everything seen. Histories in which a re-opened
        // document restarts its counter below versions of the closed session are outside the
        // property's domain: its text ("highest-version text received") and the only tenable
        // per-session reading diverge there (DESIGN.md 12.7).
        top[u] += 1;
      }
      14 if switch_world => history.push(Msg::SwitchWorkspace),
      14 | 15 => history.push(Msg::Save { uri: u }),
      16 | 17 => history.push(Msg::CodeAction { uri: u }),
      _ => history.push(Msg::FixAll { uri: u }),
    }
  }
  LspWorld { project, uris, history }
}

fn materialize(w: &LspWorld) {
  w.project.materialize(&root_dir());
}

fn hash_events(ev: &[String]) -> u64 {
  let mut h = 0xcbf2_9ce4_8422_2325u64;
  for e in ev {
    h = (h ^ fnv1a(e.as_bytes())).wrapping_mul(0x0000_0100_0000_01B3);
  }
  h
}

fn verdict(w: &LspWorld, script: Option<&Script>, seed: u64, known: &KnownFindings) -> Result<(Option<(String, String)>, SimResult, Vec<String>), String> {
  materialize(w);
  // a fresh thread per history: std's hash keys are per thread and fixed at first use, so
  // re-using one thread would make map orders depend on which run came first in the process
  let sim = std::thread::scope(|sc| {
    std::thread::Builder::new()
      .name("sim-lsp".into())
      .spawn_scoped(sc, || {
        hashseam::set_sim_tid(1);
        simulate(w, script, seed)
      })
      .expect("spawn lsp simulation thread")
      .join()
  });
  let sim = match sim {
    Ok(s) => s,
    Err(p) => return Err(format!("simulation thread panicked: {}", crate::driver::panic_msg(&p))),
  };
  let mut met = vec![];
  let v = check(w, &sim, known, &mut met)?;
  Ok((v, sim, met))
}

fn minimise(w: &LspWorld, script: &Script, seed: u64, class: &str, known: &KnownFindings) -> (LspWorld, Script) {
  let same = |w: &LspWorld, s: &Script| matches!(verdict(w, Some(s), seed, known), Ok((Some((c, _)), _, _)) if c == class);
  let mut w = w.clone();
  let mut script = script.clone();
  // the recorded script must reproduce it at all
  if !same(&w, &script) {
    return (w, script);
  }
  // simplest transport first: everything at once, replies immediate
  let simple = Script { actions: vec![], replies: vec![] };
  if same(&w, &simple) {
    script = simple;
  }
  // candidates must stay protocol-valid: no didOpen for a document that is already open
  let valid = |h: &[Msg]| -> bool {
    let mut open = std::collections::BTreeSet::new();
    for m in h {
      match m {
        Msg::Open { uri, .. } => {
          if !open.insert(*uri) {
            return false;
          }
        }
        Msg::Close { uri } => {
          open.remove(uri);
        }
        _ => {}
      }
    }
    true
  };
  w.history = shrink::ddmin(&w.history, |h| {
    let mut w2 = w.clone();
    w2.history = h.to_vec();
    valid(h) && same(&w2, &script)
  });
  // shorter script
  script.actions = shrink::ddmin(&script.actions, |a| {
    let s2 = Script { actions: a.to_vec(), replies: script.replies.clone() };
    same(&w, &s2)
  });
  // immediate replies where possible
  for i in 0..script.replies.len() {
    if script.replies[i] != ReplyPolicy::Now {
      let mut s2 = script.clone();
      s2.replies[i] = ReplyPolicy::Now;
      if same(&w, &s2) {
        script = s2;
      }
    }
  }
  // fewer rules
  for di in 0..w.project.rule_dirs.len() {
    let fs = shrink::ddmin(&w.project.rule_dirs[di].files, |fs| {
      let mut w2 = w.clone();
      w2.project.rule_dirs[di].files = fs.to_vec();
      same(&w2, &script)
    });
    w.project.rule_dirs[di].files = fs;
  }
  // shorter texts: keep the first lines only
  for i in 0..w.history.len() {
    let t = match &w.history[i] {
      Msg::Open { text, .. } | Msg::Change { text, .. } => text.clone(),
      _ => continue,
    };
    let lines: Vec<&str> = t.split_inclusive('\n').collect();
    if lines.len() > 3 {
      let short: String = lines[..3].concat();
      let mut w2 = w.clone();
      match &mut w2.history[i] {
        Msg::Open { text, .. } | Msg::Change { text, .. } => *text = short,
        _ => {}
      }
      if same(&w2, &script) {
        w = w2;
      }
    }
  }
  (w, script)
}

impl Simulation for C09Sim {
  fn id(&self) -> &'static str {
    "C09"
  }
  fn tier(&self, name: &str) -> TierCfg {
    if name == "thorough" {
      TierCfg { name: "thorough".into(), max_runs: 400_000, secs: 900 }
    } else {
      TierCfg { name: "quick".into(), max_runs: 9_000, secs: 150 }
    }
  }
  fn run(&self, seed: u64, _tier: &str, known: &KnownFindings) -> RunReport {
    cli_run::quiet_panics();
    hashseam::set_per_thread(false);
    hashseam::set_hash_seed(mix64(seed ^ 0x4c5350));
    let w = gen_world(seed);
    let mut r = RunReport::default();
    let (v, sim, met) = match verdict(&w, None, seed, known) {
      Ok(x) => x,
      Err(e) => panic!("harness: {e}"),
    };
    r.known = met;
    r.evals = 1;
    r.steps = sim.polls;
    if std::env::var("AGSIM_DUMP_EVENTS").is_ok() {
      for e in &sim.events {
        eprintln!("EV {e}");
      }
    }
    r.event_hash = hash_events(&sim.events);
    let shape: Vec<String> = sim.events.iter().map(|e| e.split(' ').take(2).collect::<Vec<_>>().join(" ")).collect();
    r.shape_hash = fnv1a(shape.join("\n").as_bytes());
    let stale = w.history.iter().any(|m| matches!(m, Msg::Change { .. })) && sim.publishes.len() >= 2;
    r.nontrivial = stale || sim.backpressure_polls > 0 || sim.server_requests > 0;
    r.add("probe:publishes_checked_against_cli", sim.publishes.len() as u64);
    r.add("probe:frontends_documents_cross_checked", FE_DOCS.swap(0, Ordering::Relaxed));
    r.add("probe:frontends_github_annotations_compared", FE_GITHUB.swap(0, Ordering::Relaxed));
    r.add("probe:frontends_stdin_vs_file_compared", FE_STDIN.swap(0, Ordering::Relaxed));
    r.add("probe:frontends_stdin_vs_file_with_path_globs", FE_STDIN_LIMITED.swap(0, Ordering::Relaxed));
    r.add("probe:frontends_test_verdicts_compared", FE_VERDICTS.swap(0, Ordering::Relaxed));
    r.add("probe:server_to_client_requests", sim.server_requests as u64);
    if sim.backpressure_polls > 0 {
      r.count("fault:backpressure");
    }
    if sim.max_inflight_hint >= 2 {
      r.count("fault:burst");
    }
    for p in &sim.script.replies {
      match p {
        ReplyPolicy::After(_) => r.count("fault:slow-response"),
        ReplyPolicy::Error => r.count("fault:error-response"),
        ReplyPolicy::Null => r.count("fault:null-response"),
        ReplyPolicy::Now => {}
      }
    }
    if sim.script.actions.iter().any(|a| matches!(a, Action::Feed { .. })) {
      r.count("fault:chunking");
    }
    // stale version in the history
    {
      let mut top: BTreeMap<usize, i32> = BTreeMap::new();
      let mut stale_seen = false;
      for m in &w.history {
        if let Msg::Open { uri, version, .. } | Msg::Change { uri, version, .. } = m {
          let t = top.entry(*uri).or_insert(i32::MIN);
          if *version < *t {
            stale_seen = true;
          }
          *t = (*t).max(*version);
        }
      }
      if stale_seen {
        r.count("fault:stale-version");
      }
    }
    if w.uris.iter().any(|u| !u.inside) {
      r.count("probe:uri_outside_workspace");
    }
    if w.history.iter().filter(|m| matches!(m, Msg::Close { .. })).count() > 0 {
      r.count("probe:history_with_close");
    }
    if sim.completed {
      r.count("probe:server_returned_after_eof");
    }
    if (seed & 0x3f) == 0 {
      r.sample = Some(json!({
        "uris": w.uris, "rules": w.project.all_rules().iter().map(|x| x.id.clone()).collect::<Vec<_>>(),
        "history": w.history.iter().map(|m| match m { Msg::Open{uri,version,text} => format!("didOpen #{uri} v{version} ({} bytes)", text.len()), Msg::Change{uri,version,text} => format!("didChange #{uri} v{version} ({} bytes)", text.len()), Msg::Close{uri} => format!("didClose #{uri}"), Msg::Save{uri} => format!("didSave #{uri}"), Msg::CodeAction{uri} => format!("codeAction #{uri}"), Msg::FixAll{uri} => format!("executeCommand #{uri}"), Msg::SwitchWorkspace => "editor switches workspace folder".to_string() }).collect::<Vec<_>>(),
        "transport": sim.script.actions.iter().take(30).collect::<Vec<_>>(), "replies": sim.script.replies,
        "events": sim.events.iter().take(60).collect::<Vec<_>>(), "polls": sim.polls,
      }));
    }
    if let Some((class, detail)) = v {
      let (mw, ms) = minimise(&w, &sim.script, seed, &class, known);
      let fin = verdict(&mw, Some(&ms), seed, known);
      let (c2, d2, eh, ev) = match &fin {
        Ok((Some((c, d)), s, _)) => (c.clone(), d.clone(), hash_events(&s.events), s.events.clone()),
        _ => (class, detail, 0, vec![]),
      };
      r.violation = Some((c2, d2, json!({"world": mw, "script": ms, "seed": seed, "event_hash": format!("{eh:016x}"), "trace": ev, "original": {"history": w.history.len(), "actions": sim.script.actions.len()}})));
    }
    r
  }
  fn replay(&self, doc: &Value, known: &KnownFindings) -> ReplayOutcome {
    cli_run::quiet_panics();
    hashseam::set_per_thread(false);
    let bad = |m: String| ReplayOutcome { reproduced: false, class: "".into(), detail: m, event_hash: 0 };
    let w: LspWorld = match serde_json::from_value(doc["world"].clone()) {
      Ok(x) => x,
      Err(e) => return bad(format!("cannot read world: {e}")),
    };
    let script: Script = match serde_json::from_value(doc["script"].clone()) {
      Ok(x) => x,
      Err(e) => return bad(format!("cannot read script: {e}")),
    };
    let seed = doc["seed"].as_u64().unwrap_or(0);
    hashseam::set_hash_seed(mix64(seed ^ 0x4c5350));
    match verdict(&w, Some(&script), seed, known) {
      Ok((Some((c, d)), s, _)) => ReplayOutcome { reproduced: true, class: c, detail: d, event_hash: hash_events(&s.events) },
      Ok((None, s, _)) => ReplayOutcome { reproduced: false, class: "".into(), detail: "history ran clean".into(), event_hash: hash_events(&s.events) },
      Err(e) => bad(format!("harness error during replay: {e}")),
    }
  }
  fn warm_up(&self) {
    crate::selftest::warm_up();
  }
  fn describe(&self) -> Describe {
    Describe {
      rule: "a case = (generated rule project incl. randomly generated rule trees; 1-3 document URIs incl. outside-workspace, unknown-extension, and percent-encoded (spaces, non-ASCII) ones; protocol-valid notification history of 2-14 messages: didOpen/didChange with unique versions incl. stale ones arriving late, didClose + re-open, didSave, codeAction, executeCommand; a transport script: byte chunking incl. mid-header/mid-body, bursts of up to 8 messages, output budgets incl. a stalled editor, and a reply policy per server request: now / after j messages / error / null). Checked: every publishDiagnostics carries a version the client sent and exactly the findings `sg scan --json` reports for that text at that path (rule id, range, message with note decoration, severity); the last publish of every open in-workspace document is its highest version; every client request is answered once; no self-deadlock on the document map; after EOF the server returns; and on the newest text of one document per history the CLI front ends agree with each other (JSON styles, GitHub format parsed in printed order, --stdin also for rule files with files:/ignores: (one-sided there), sg test verdicts for 20 test documents); rule messages incl. multi-line ones and ones naming variables captured outside the match. non-trivial = the history has a change and >=2 publishes, or back-pressure occurred, or the server asked the client something; distinct = projected executor/transport event trace not seen before".into(),
      assumptions: vec![
        "protocol-valid histories only: unique versions per URI, re-open above every earlier version; the clause is asserted for documents whose session is open at the end of the history".into(),
        "single-language documents (no HTML): the language server does not scan embedded documents, which is a feature gap rather than a history defect".into(),
        "the simulator decides I/O readiness only; which suspended handler runs next is decided by tower-lsp/futures' real code".into(),
      ],
      real: vec!["tower_lsp::Server::serve, LspService, Client (bounded channel), framed codec".into(), "ast_grep_lsp::Backend handlers and DashMap".into(), "ProjectConfig::setup/find_rules (production wiring via ast_grep::verif::lsp_serve)".into(), "CLI scan --json=stream for the expectations".into()],
      stub: vec!["stdin/stdout (in-memory pipes implementing tokio AsyncRead/AsyncWrite)".into(), "the tokio runtime (hand-rolled single-thread executor; production uses block_on on one task)".into(), "the editor (scripted client)".into()],
      time_unit: "n/a (no timers in the server); steps = executor polls".into(),
    }
  }
}
