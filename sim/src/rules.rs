//! Rule pack: hand-written rule templates instantiated with generated ids. Every template
//! is valid for ast-grep (checked by `agsim selftest`) and finds matches in the corpora.

use serde::{Deserialize, Serialize};

/// A rule document in structured form so that map-valued sections can be permuted.
#[derive(Clone, Debug, Serialize, Deserialize, PartialEq)]
pub struct RuleSpec {
  pub id: String,
  pub language: String,
  pub severity: Option<String>,
  pub message: Option<String>,
  pub note: Option<String>,
  /// YAML block (already indented by two spaces) for the `rule:` key
  pub rule: String,
  /// (name, YAML block indented by four spaces)
  pub utils: Vec<(String, String)>,
  pub constraints: Vec<(String, String)>,
  pub transform: Vec<(String, String)>,
  /// each a YAML list item block: first line starts with "- ", following lines indented by two
  pub rewriters: Vec<String>,
  /// YAML for the value of `fix:` — either a one-line scalar or a block starting with a newline
  pub fix: Option<String>,
  pub files: Option<Vec<String>>,
  pub ignores: Option<Vec<String>>,
  /// order in which the top-level sections are written (indexes into SECTION names)
  pub section_order: Vec<usize>,
  /// test cases for `sg test`
  pub valid: Vec<String>,
  pub invalid: Vec<String>,
  /// a utility (global) rule has no severity/message/fix and lives in a utilDir
  pub is_util: bool,
}

pub const SECTIONS: &[&str] = &["rule", "utils", "constraints", "transform", "rewriters", "fix", "files", "ignores"];

fn yaml_str(s: &str) -> String {
  // JSON string syntax is valid YAML (double-quoted scalar)
  serde_json::to_string(s).unwrap()
}

impl RuleSpec {
  pub fn to_yaml(&self) -> String {
    let mut o = String::new();
    o.push_str(&format!("id: {}\n", self.id));
    o.push_str(&format!("language: {}\n", self.language));
    if let Some(s) = &self.severity {
      o.push_str(&format!("severity: {s}\n"));
    }
    if let Some(m) = &self.message {
      o.push_str(&format!("message: {}\n", yaml_str(m)));
    }
    if let Some(n) = &self.note {
      o.push_str(&format!("note: {}\n", yaml_str(n)));
    }
    let order: Vec<usize> = if self.section_order.len() == SECTIONS.len() { self.section_order.clone() } else { (0..SECTIONS.len()).collect() };
    for s in order {
      match SECTIONS[s] {
        "rule" => {
          o.push_str("rule:\n");
          o.push_str(&self.rule);
          if !self.rule.ends_with('\n') {
            o.push('\n');
          }
        }
        "utils" if !self.utils.is_empty() => {
          o.push_str("utils:\n");
          for (k, v) in &self.utils {
            o.push_str(&format!("  {k}:\n{v}"));
            if !v.ends_with('\n') {
              o.push('\n');
            }
          }
        }
        "constraints" if !self.constraints.is_empty() => {
          o.push_str("constraints:\n");
          for (k, v) in &self.constraints {
            o.push_str(&format!("  {k}:\n{v}"));
            if !v.ends_with('\n') {
              o.push('\n');
            }
          }
        }
        "transform" if !self.transform.is_empty() => {
          o.push_str("transform:\n");
          for (k, v) in &self.transform {
            o.push_str(&format!("  {k}:\n{v}"));
            if !v.ends_with('\n') {
              o.push('\n');
            }
          }
        }
        "rewriters" if !self.rewriters.is_empty() => {
          o.push_str("rewriters:\n");
          for r in &self.rewriters {
            o.push_str(r);
            if !r.ends_with('\n') {
              o.push('\n');
            }
          }
        }
        "fix" => {
          if let Some(f) = &self.fix {
            if f.starts_with('\n') {
              o.push_str(&format!("fix:{f}"));
              if !f.ends_with('\n') {
                o.push('\n');
              }
            } else {
              o.push_str(&format!("fix: {}\n", yaml_str(f)));
            }
          }
        }
        "files" => {
          if let Some(fs) = &self.files {
            o.push_str("files:\n");
            for f in fs {
              o.push_str(&format!("- {}\n", yaml_str(f)));
            }
          }
        }
        "ignores" => {
          if let Some(fs) = &self.ignores {
            o.push_str("ignores:\n");
            for f in fs {
              o.push_str(&format!("- {}\n", yaml_str(f)));
            }
          }
        }
        _ => {}
      }
    }
    o
  }

  pub fn test_yaml(&self) -> String {
    let mut o = format!("id: {}\nvalid:\n", self.id);
    for v in &self.valid {
      o.push_str(&format!("- {}\n", yaml_str(v)));
    }
    if self.valid.is_empty() {
      o = format!("id: {}\nvalid: []\n", self.id);
    }
    if self.invalid.is_empty() {
      o.push_str("invalid: []\n");
    } else {
      o.push_str("invalid:\n");
      for v in &self.invalid {
        o.push_str(&format!("- {}\n", yaml_str(v)));
      }
    }
    o
  }
}

pub struct Template {
  pub name: &'static str,
  /// languages this template can be instantiated for
  pub langs: &'static [&'static str],
  pub severity: &'static str,
  pub message: &'static str,
  pub note: &'static str,
  pub rule: &'static str,
  pub utils: &'static [(&'static str, &'static str)],
  pub constraints: &'static [(&'static str, &'static str)],
  pub transform: &'static [(&'static str, &'static str)],
  pub rewriters: &'static [&'static str],
  pub fix: &'static str,
  pub files: &'static [&'static str],
  pub ignores: &'static [&'static str],
  pub valid: &'static [&'static str],
  pub invalid: &'static [&'static str],
  /// names of global utility templates this rule needs
  pub needs_utils: &'static [&'static str],
  pub is_util: bool,
}

const T0: Template = Template {
  name: "",
  langs: &[],
  severity: "",
  message: "",
  note: "",
  rule: "",
  utils: &[],
  constraints: &[],
  transform: &[],
  rewriters: &[],
  fix: "",
  files: &[],
  ignores: &[],
  valid: &[],
  invalid: &[],
  needs_utils: &[],
  is_util: false,
};

const JS: &[&str] = &["TypeScript", "JavaScript"];

pub const TEMPLATES: &[Template] = &[
  Template {
    name: "no-console",
    langs: JS,
    severity: "warning",
    message: "avoid console.log of $A",
    rule: "  pattern: console.log($A)\n",
    fix: "log($A)",
    valid: &["log(1)"],
    invalid: &["console.log(1)", "console.log(foo(1, 2))"],
    ..T0
  },
  Template {
    name: "console-to-warn",
    langs: JS,
    severity: "hint",
    message: "use console.warn for $A",
    rule: "  pattern: console.log($A)\n",
    fix: "console.warn($A)",
    valid: &["log(1)"],
    invalid: &["console.log(1)"],
    ..T0
  },
  Template {
    name: "no-console-any",
    langs: JS,
    severity: "info",
    message: "console call\nuse the project logger instead",
    note: "console calls are noisy",
    rule: "  pattern: console.log($$$ARGS)\n",
    valid: &["log(1)"],
    invalid: &["console.log(1, 2)"],
    ..T0
  },
  Template {
    name: "no-debugger",
    langs: JS,
    severity: "error",
    message: "debugger statement\n  remove it before committing",
    rule: "  kind: debugger_statement\n",
    fix: "",
    valid: &["let a = 1"],
    invalid: &["debugger;"],
    ..T0
  },
  Template {
    name: "no-eval",
    langs: JS,
    severity: "error",
    message: "eval of $A",
    note: "eval is evil",
    rule: "  pattern: eval($A)\n",
    valid: &["evaluate(1)"],
    invalid: &["eval(\"1 + 1\")"],
    ..T0
  },
  Template {
    name: "eqeqeq",
    langs: JS,
    severity: "warning",
    message: "use === to compare $A and $B",
    rule: "  pattern: $A == $B\n",
    fix: "$A === $B",
    valid: &["a === b"],
    invalid: &["a == b", "if (x == 1) { y() }"],
    ..T0
  },
  Template {
    name: "no-var",
    langs: JS,
    severity: "hint",
    message: "",
    rule: "  pattern: var $A = $B\n",
    fix: "let $A = $B",
    valid: &["let a = 1"],
    invalid: &["var a = 1"],
    ..T0
  },
  Template {
    name: "swap-return-add",
    langs: JS,
    severity: "info",
    message: "swap $A and $B",
    rule: "  pattern: $A + $B\n  inside:\n    kind: return_statement\n    stopBy: end\n",
    fix: "$B + $A",
    valid: &["let a = 1 + 2"],
    invalid: &["function f() { return x + y }"],
    ..T0
  },
  Template {
    name: "log-in-block-with-args",
    langs: JS,
    severity: "info",
    message: "console.log($A) inside a block",
    rule: "  pattern: console.log($A)\n  inside:\n    kind: statement_block\n    stopBy: end\n  has:\n    kind: arguments\n  follows:\n    kind: expression_statement\n    stopBy: end\n",
    valid: &["console.log(1)"],
    invalid: &["function f() {\n  foo(1, 2);\n  console.log(x);\n}", "if (a) {\n  bar(1);\n  baz(2);\n  console.log(a);\n}"],
    ..T0
  },
  Template {
    // the message names a variable captured outside the matched node
    name: "log-in-function",
    langs: JS,
    severity: "warning",
    message: "console.log of $A in function $FN",
    rule: "  pattern: console.log($A)\n  inside:\n    pattern: function $FN($$$PARAMS) { $$$BODY }\n    stopBy: end\n",
    valid: &["console.log(1)"],
    invalid: &["function f() {\n  console.log(x);\n}"],
    ..T0
  },
  Template {
    name: "foo-same-args",
    langs: JS,
    severity: "error",
    message: "foo called with the same argument $A twice",
    rule: "  pattern: foo($A, $A)\n",
    valid: &["foo(1, 2)"],
    invalid: &["foo(a, a)"],
    ..T0
  },
  Template {
    name: "call-with-number",
    langs: JS,
    severity: "hint",
    message: "call with a number literal\n\nname the number",
    rule: "  all:\n  - matches: is-call\n  - has:\n      kind: arguments\n      has:\n        matches: is-num\n",
    utils: &[("is-call", "    kind: call_expression\n"), ("is-num", "    kind: number\n")],
    valid: &["foo(a)"],
    invalid: &["foo(1)"],
    ..T0
  },
  Template {
    name: "util-chain",
    langs: JS,
    severity: "warning",
    message: "nested literal call $C",
    rule: "  pattern: $C\n  matches: outer\n",
    utils: &[
      ("outer", "    all:\n    - kind: call_expression\n    - has:\n        stopBy: end\n        matches: middle\n"),
      ("middle", "    kind: arguments\n    has:\n      matches: inner\n"),
      ("inner", "    any:\n    - kind: number\n    - kind: string\n"),
    ],
    valid: &["foo(a)"],
    invalid: &["foo(1)", "bar(foo(3, 4), 5)"],
    ..T0
  },
  Template {
    name: "util-direct",
    langs: JS,
    severity: "info",
    message: "literal or call with literal",
    rule: "  matches: lit-or-call\n",
    utils: &[
      ("lit-or-call", "    any:\n    - matches: lit\n    - matches: call\n"),
      ("lit", "    any:\n    - kind: number\n    - kind: string\n"),
      ("call", "    all:\n    - kind: call_expression\n    - matches: has-lit-arg\n"),
      ("has-lit-arg", "    has:\n      kind: arguments\n      has:\n        matches: lit\n"),
    ],
    valid: &["foo(a)"],
    invalid: &["foo(1)"],
    ..T0
  },
  Template {
    name: "global-direct",
    langs: JS,
    severity: "hint",
    message: "literal (global utils)",
    rule: "  matches: g-lit-or-id\n",
    needs_utils: &["g-literal", "g-lit-or-id"],
    valid: &["foo()"],
    invalid: &["foo(1)"],
    ..T0
  },
  Template {
    name: "g-lit-or-id",
    langs: JS,
    rule: "  any:\n  - matches: g-literal\n  - kind: template_string\n",
    needs_utils: &["g-literal"],
    is_util: true,
    ..T0
  },
  Template {
    name: "util-any-inside-has",
    langs: JS,
    severity: "warning",
    message: "call passes a literal somewhere",
    rule: "  matches: call-lit\n",
    utils: &[
      ("lit2", "    any:\n    - kind: number\n    - kind: string\n"),
      ("call-lit", "    kind: call_expression\n    has:\n      stopBy: end\n      any:\n      - matches: lit2\n      - kind: template_string\n"),
      ("unused-helper", "    all:\n    - kind: identifier\n    - inside:\n        stopBy: end\n        all:\n        - matches: call-lit\n        - not:\n            matches: lit2\n"),
    ],
    valid: &["foo(a)"],
    invalid: &["foo(1)", "baz(\"s\")"],
    ..T0
  },
  Template {
    name: "global-any-inside-has",
    langs: JS,
    severity: "hint",
    message: "statement containing a literal (global utils)",
    rule: "  matches: g-stmt-with-literal\n",
    needs_utils: &["g-literal", "g-stmt-with-literal"],
    valid: &["foo(a);"],
    invalid: &["foo(1);"],
    ..T0
  },
  Template {
    name: "g-stmt-with-literal",
    langs: JS,
    rule: "  kind: expression_statement\n  has:\n    stopBy: end\n    any:\n    - matches: g-literal\n    - kind: template_string\n",
    needs_utils: &["g-literal"],
    is_util: true,
    ..T0
  },
  Template {
    name: "shadow-global-util",
    langs: JS,
    severity: "info",
    message: "call with a string somewhere (local util shadows the global one)",
    rule: "  matches: call-with-shadowed\n",
    utils: &[
      ("g-literal", "    kind: string\n"),
      ("call-with-shadowed", "    kind: call_expression\n    has:\n      stopBy: end\n      matches: g-literal\n"),
    ],
    needs_utils: &["g-literal"],
    valid: &["foo(1)"],
    invalid: &["baz(\"s\")"],
    ..T0
  },
  Template {
    name: "global-with-local-utils",
    langs: JS,
    severity: "info",
    message: "literal or template (global util with its own local utils)",
    rule: "  matches: g-wrap\n",
    needs_utils: &["g-literal", "g-wrap"],
    valid: &["foo(a)"],
    invalid: &["foo(1)"],
    ..T0
  },
  Template {
    name: "g-wrap",
    langs: JS,
    rule: "  any:\n  - matches: loc\n  - kind: template_string\n",
    utils: &[("loc", "    matches: g-literal\n")],
    needs_utils: &["g-literal"],
    is_util: true,
    ..T0
  },
  Template {
    name: "global-literal-call",
    langs: JS,
    severity: "info",
    message: "call with literal (global util)",
    rule: "  matches: g-call-with-literal\n",
    needs_utils: &["g-literal", "g-call-with-literal"],
    valid: &["foo(a)"],
    invalid: &["foo(1)"],
    ..T0
  },
  Template {
    name: "g-literal",
    langs: JS,
    rule: "  any:\n  - kind: number\n  - kind: string\n",
    is_util: true,
    ..T0
  },
  Template {
    name: "g-call-with-literal",
    langs: JS,
    rule: "  kind: call_expression\n  has:\n    kind: arguments\n    has:\n      matches: g-literal\n",
    needs_utils: &["g-literal"],
    is_util: true,
    ..T0
  },
  Template {
    name: "rename-let",
    langs: JS,
    severity: "warning",
    message: "rename $A to $NEW ($UP, $NEW_LOWER)",
    rule: "  pattern: let $A = $B\n",
    transform: &[
      ("UP", "    convert:\n      source: $A\n      toCase: upperCase\n"),
      ("NEW", "    replace:\n      source: $UP\n      replace: \"^\"\n      by: K_\n"),
      ("SHORT", "    substring:\n      source: $NEW\n      startChar: 0\n      endChar: 4\n"),
      // a name that has another transform's name as a prefix
      ("NEW_LOWER", "    convert:\n      source: $NEW\n      toCase: lowerCase\n"),
    ],
    fix: "const $NEW = $B /* $SHORT $NEW_LOWER */",
    valid: &["const a = 1"],
    invalid: &["let abc = 1", "let 变量 = foo(1, 2)"],
    ..T0
  },
  Template {
    name: "shared-constraint",
    langs: JS,
    severity: "warning",
    message: "foo($A, $B) with $X",
    // `inside` always holds and binds a third variable: more captures than constraints, the
    // shape under which a matcher might take another road through the constraints
    rule: "  pattern: foo($A, $B)\n  inside:\n    pattern: $STMT\n",
    constraints: &[
      ("A", "    any:\n    - pattern: $X\n    - kind: number\n"),
      ("B", "    pattern: $X\n"),
    ],
    valid: &["bar(1, 2)"],
    invalid: &["foo(a, a)"],
    ..T0
  },
  Template {
    name: "constrained-add",
    langs: JS,
    severity: "info",
    message: "number plus $B",
    rule: "  pattern: $A + $B\n",
    constraints: &[("A", "    kind: number\n"), ("B", "    not:\n      kind: string\n")],
    fix: "$B + $A",
    valid: &["a + b"],
    invalid: &["1 + 2"],
    ..T0
  },
  Template {
    name: "paren-numbers",
    langs: JS,
    severity: "hint",
    message: "wrap numbers of bar call",
    rule: "  pattern: bar($$$ARGS)\n",
    rewriters: &[
      "- id: rw-num\n  rule:\n    kind: number\n    pattern: $N\n  fix: ($N)\n",
      "- id: rw-call\n  rule:\n    pattern: foo($$$I)\n  transform:\n    INNER:\n      rewrite:\n        rewriters: [rw-num]\n        source: $$$I\n  fix: foo($INNER)\n",
    ],
    transform: &[("R", "    rewrite:\n      rewriters: [rw-num, rw-call]\n      source: $$$ARGS\n      joinBy: \", \"\n")],
    fix: "bar($R)",
    valid: &["baz(1)"],
    invalid: &["bar(foo(3, 4), 5)"],
    ..T0
  },
  Template {
    name: "wrap-with-callee",
    langs: JS,
    severity: "hint",
    message: "wrap the numbers of $FN",
    rule: "  pattern: $FN($$$ARGS)\n",
    constraints: &[("FN", "    regex: ^(foo|bar)$\n")],
    rewriters: &["- id: num-of\n  rule:\n    kind: number\n    pattern: $N\n  fix: $FN.of($N)\n"],
    transform: &[("WRAPPED", "    rewrite:\n      rewriters: [num-of]\n      source: $$$ARGS\n      joinBy: \", \"\n")],
    fix: "$FN($WRAPPED)",
    valid: &["baz(1, 2)"],
    invalid: &["foo(1, 2)", "bar(1, 2)"],
    ..T0
  },
  Template {
    name: "wrap-with-tag",
    langs: JS,
    severity: "hint",
    message: "tag the numbers of $FN with $TAG",
    rule: "  pattern: $FN($$$ARGS)\n",
    constraints: &[("FN", "    regex: ^(foo|bar)$\n")],
    // the rewriter's fix names a variable the enclosing rule only computes by a transformation
    rewriters: &["- id: tag-num\n  rule:\n    kind: number\n    pattern: $N\n  fix: $TAG($N)\n"],
    transform: &[
      ("TAG", "    replace:\n      source: $FN\n      replace: \"^\"\n      by: t_\n"),
      ("TAGGED", "    rewrite:\n      rewriters: [tag-num]\n      source: $$$ARGS\n      joinBy: \", \"\n"),
    ],
    fix: "$FN($TAGGED)",
    valid: &["baz(1, 2)"],
    invalid: &["foo(1, 2)", "bar(1, 2)"],
    ..T0
  },
  Template {
    name: "program-without-comment",
    langs: JS,
    severity: "hint",
    message: "file without any comment",
    rule: "  kind: program\n  not:\n    has:\n      kind: comment\n",
    valid: &["// c\nlet a = 1"],
    invalid: &["let a = 1"],
    ..T0
  },
  Template {
    name: "drop-array-number",
    langs: JS,
    severity: "hint",
    message: "drop number in array",
    rule: "  kind: number\n  inside:\n    kind: array\n",
    fix: "\n  template: ''\n  expandEnd:\n    regex: ','\n",
    valid: &["let a = 1"],
    invalid: &["const arr = [1, 2, 3]"],
    ..T0
  },
  Template {
    name: "drop-trailing-array-number",
    langs: JS,
    severity: "hint",
    message: "drop last number of the array",
    rule: "  kind: number\n  nthChild:\n    position: 1\n    reverse: true\n  inside:\n    kind: array\n  follows:\n    kind: number\n    stopBy: end\n",
    fix: "\n  template: ''\n  expandStart:\n    regex: ',\\s*'\n",
    valid: &["let a = 1"],
    invalid: &["const arr = [1, 2, 3]"],
    ..T0
  },
  Template {
    name: "src-only-alert",
    langs: JS,
    severity: "error",
    message: "alert in src",
    rule: "  pattern: alert($A)\n",
    files: &["src/**"],
    valid: &["warn(1)"],
    invalid: &["alert(123)"],
    ..T0
  },
  Template {
    name: "no-vendor-require",
    langs: JS,
    severity: "warning",
    message: "require of $M",
    rule: "  pattern: require($M)\n",
    ignores: &["vendor/**"],
    fix: "import($M)",
    valid: &["import(\"fs\")"],
    invalid: &["var legacy = require(\"fs\")"],
    ..T0
  },
  Template {
    name: "generated-dir-foo",
    langs: JS,
    severity: "info",
    message: "foo call in generated code",
    rule: "  pattern: foo($$$ARGS)\n",
    files: &["**/gen code/**", "**/géné/**"],
    valid: &["bar(1)"],
    invalid: &["foo(1, 2)"],
    ..T0
  },
  Template {
    name: "not-in-generated-console",
    langs: JS,
    severity: "hint",
    message: "console.log outside generated code",
    rule: "  pattern: console.log($$$ARGS)\n",
    ignores: &["**/gen code/**", "géné/**"],
    valid: &["log(1)"],
    invalid: &["console.log(1)"],
    ..T0
  },
  Template {
    name: "off-rule",
    langs: JS,
    severity: "off",
    message: "never reported",
    rule: "  pattern: foo($$$A)\n",
    ..T0
  },
  // ---- Python
  Template {
    name: "py-print",
    langs: &["Python"],
    severity: "warning",
    message: "print of $A",
    rule: "  pattern: print($A)\n",
    fix: "log($A)",
    valid: &["log(1)"],
    invalid: &["print(1)"],
    ..T0
  },
  Template {
    name: "py-eval",
    langs: &["Python"],
    severity: "error",
    message: "eval of $A",
    rule: "  pattern: eval($A)\n",
    valid: &["evaluate(1)"],
    invalid: &["eval(\"1 + 1\")"],
    ..T0
  },
  Template {
    name: "py-eq",
    langs: &["Python"],
    severity: "info",
    message: "comparison $A == $B",
    rule: "  pattern: $A == $B\n  inside:\n    kind: if_statement\n    stopBy: end\n",
    valid: &["a = 1"],
    invalid: &["if a == b:\n    foo(a, b)"],
    ..T0
  },
  Template {
    name: "py-upper",
    langs: &["Python"],
    severity: "hint",
    message: "assign $A ($UP)",
    rule: "  pattern: $A = $B\n",
    constraints: &[("B", "    kind: integer\n")],
    transform: &[("UP", "    convert:\n      source: $A\n      toCase: upperCase\n")],
    fix: "$UP = $B",
    valid: &["a = b"],
    invalid: &["z = 3"],
    ..T0
  },
  // ---- Rust
  Template {
    name: "rs-unwrap",
    langs: &["Rust"],
    severity: "error",
    message: "unwrap on $A",
    rule: "  pattern: $A.unwrap()\n",
    fix: "$A?",
    valid: &["fn f() { a.expect(\"x\"); }"],
    invalid: &["fn f() { let v = foo(1, 2).unwrap(); }"],
    ..T0
  },
  Template {
    name: "rs-let",
    langs: &["Rust"],
    severity: "hint",
    message: "binding $A",
    rule: "  pattern: let $A = $B;\n",
    valid: &["fn f() { g(); }"],
    invalid: &["fn f() { let z = 3; }"],
    ..T0
  },
  // ---- Go
  Template {
    name: "go-println",
    langs: &["Go"],
    severity: "warning",
    message: "fmt.Println of $A",
    rule: "  pattern:\n    context: 'func t() { fmt.Println($A) }'\n    selector: call_expression\n",
    fix: "log.Println($A)",
    valid: &["package main\nfunc f() { log.Println(1) }"],
    invalid: &["package main\nfunc f() { fmt.Println(1) }"],
    ..T0
  },
  // ---- CSS
  Template {
    name: "css-red",
    langs: &["Css"],
    severity: "warning",
    message: "red is banned",
    rule: "  pattern:\n    context: 'a { color: red }'\n    selector: declaration\n",
    fix: "color: var(--red);",
    valid: &["a { color: blue; }"],
    invalid: &["a { color: red; }"],
    ..T0
  },
  Template {
    name: "css-important",
    langs: &["Css"],
    severity: "error",
    message: "no !important",
    rule: "  kind: important\n",
    valid: &["a { color: blue; }"],
    invalid: &["p { color: red !important; }"],
    ..T0
  },
  // ---- HTML
  Template {
    name: "html-p",
    langs: &["Html"],
    severity: "info",
    message: "paragraph",
    rule: "  pattern: <p>$$$A</p>\n",
    fix: "<div>$$$A</div>",
    valid: &["<div>x</div>"],
    invalid: &["<p>text</p>"],
    ..T0
  },
  Template {
    name: "html-img",
    langs: &["Html"],
    severity: "warning",
    message: "image element\nneeds an alt text",
    rule: "  kind: element\n  has:\n    kind: start_tag\n    has:\n      kind: tag_name\n      regex: ^img$\n",
    valid: &["<p>x</p>"],
    invalid: &["<img src=\"a.png\">"],
    ..T0
  },
];

pub fn template(name: &str) -> &'static Template {
  TEMPLATES.iter().find(|t| t.name == name).unwrap_or_else(|| panic!("no template {name}"))
}

/// Instantiate a template for a language. Ids of utilities are global per language, so the
/// language tag is part of every id.
pub fn instantiate(t: &Template, lang: &str, suffix: &str) -> RuleSpec {
  let tag = match lang {
    "TypeScript" => "ts",
    "JavaScript" => "js",
    "Python" => "py",
    "Rust" => "rs",
    "Go" => "go",
    "Css" => "css",
    "Html" => "html",
    o => o,
  };
  let id = if t.is_util { format!("{}-{tag}", t.name) } else { format!("{}-{tag}{suffix}", t.name) };
  // references to global utils must carry the language tag too
  let fixrefs = |s: &str| -> String {
    let mut s = s.to_string();
    for u in ["g-call-with-literal", "g-literal", "g-lit-or-id", "g-stmt-with-literal", "g-wrap"] {
      s = s.replace(&format!("matches: {u}\n"), &format!("matches: {u}-{tag}\n"));
    }
    s
  };
  let own = |xs: &[(&str, &str)]| {
    xs.iter()
      .map(|(k, v)| {
        let k = if k.starts_with("g-") { format!("{k}-{tag}") } else { k.to_string() };
        (k, fixrefs(v))
      })
      .collect::<Vec<_>>()
  };
  RuleSpec {
    id,
    language: lang.to_string(),
    severity: if t.severity.is_empty() { None } else { Some(t.severity.to_string()) },
    message: if t.is_util { None } else { Some(t.message.to_string()) },
    note: if t.note.is_empty() { None } else { Some(t.note.to_string()) },
    rule: fixrefs(t.rule),
    utils: own(t.utils),
    constraints: own(t.constraints),
    transform: own(t.transform),
    rewriters: t.rewriters.iter().map(|s| s.to_string()).collect(),
    fix: if t.fix.is_empty() && t.name != "no-debugger" { None } else { Some(t.fix.to_string()) },
    files: if t.files.is_empty() { None } else { Some(t.files.iter().map(|s| s.to_string()).collect()) },
    ignores: if t.ignores.is_empty() { None } else { Some(t.ignores.iter().map(|s| s.to_string()).collect()) },
    section_order: (0..SECTIONS.len()).collect(),
    valid: t.valid.iter().map(|s| s.to_string()).collect(),
    invalid: t.invalid.iter().map(|s| s.to_string()).collect(),
    is_util: t.is_util,
  }
}

// ---------------------------------------------------------------------------------------
// random rule generator (JavaScript/TypeScript): rule trees over the documented operators
// with local utilities that reference each other at various depths. Conservative by
// construction (every rule has a positive matcher, references are acyclic and defined), so
// ast-grep accepts them; acceptance is nevertheless part of what the checks compare.

use crate::rng::Rng;

#[derive(Clone, Debug)]
enum RNode {
  Kind(&'static str),
  Pattern(&'static str),
  Regex(&'static str),
  Matches(String),
  All(Vec<RNode>),
  Any(Vec<RNode>),
  Not(Box<RNode>),
  Rel(&'static str, &'static str, Box<RNode>), // (has|inside|follows|precedes, stopBy, sub)
}

impl RNode {
  /// YAML mapping entries of this rule object at the given indentation
  fn yaml(&self, ind: usize) -> String {
    let p = " ".repeat(ind);
    match self {
      RNode::Kind(k) => format!("{p}kind: {k}\n"),
      RNode::Pattern(x) => format!("{p}pattern: {}\n", yaml_str(x)),
      RNode::Regex(x) => format!("{p}regex: {}\n", yaml_str(x)),
      RNode::Matches(u) => format!("{p}matches: {u}\n"),
      RNode::All(v) | RNode::Any(v) => {
        let key = if matches!(self, RNode::All(_)) { "all" } else { "any" };
        let mut o = format!("{p}{key}:\n");
        for c in v {
          let body = c.yaml(ind + 2);
          // turn the first line of the child's mapping into a list item
          let mut lines = body.lines();
          if let Some(first) = lines.next() {
            o.push_str(&format!("{p}- {}\n", first.trim_start()));
          }
          for l in lines {
            o.push_str(l);
            o.push('\n');
          }
        }
        o
      }
      RNode::Not(c) => format!("{p}not:\n{}", c.yaml(ind + 2)),
      RNode::Rel(op, stop, c) => {
        let mut o = format!("{p}{op}:\n");
        if *stop != "neighbor" {
          o.push_str(&format!("{p}  stopBy: {stop}\n"));
        }
        o.push_str(&c.yaml(ind + 2));
        o
      }
    }
  }
}

const R_KINDS: &[&str] = &["call_expression", "number", "string", "identifier", "binary_expression", "arguments", "expression_statement", "member_expression"];
const R_PATTERNS: &[&str] = &["console.log($$$A)", "foo($A, $B)", "$A + $B", "$F($$$ARGS)", "$A == $B", "bar($$$X)"];

fn r_atom(rng: &mut Rng, utils: &[String]) -> RNode {
  match rng.below(10) {
    0..=3 => RNode::Kind(*rng.pick(R_KINDS)),
    4..=6 => RNode::Pattern(*rng.pick(R_PATTERNS)),
    7 if !utils.is_empty() => RNode::Matches(rng.pick(utils).clone()),
    8 if !utils.is_empty() => RNode::Matches(rng.pick(utils).clone()),
    _ => RNode::Kind(*rng.pick(R_KINDS)),
  }
}

fn r_tree(rng: &mut Rng, depth: usize, utils: &[String]) -> RNode {
  if depth == 0 {
    return r_atom(rng, utils);
  }
  match rng.below(12) {
    0..=2 => r_atom(rng, utils),
    3 | 4 => RNode::Any((0..rng.range(2, 3)).map(|_| r_tree(rng, depth - 1, utils)).collect()),
    5 => {
      let mut v = vec![RNode::Kind(*rng.pick(R_KINDS))];
      for _ in 0..rng.range(1, 2) {
        v.push(r_rel(rng, depth - 1, utils));
      }
      RNode::All(v)
    }
    6 => RNode::All(vec![RNode::Kind(*rng.pick(R_KINDS)), RNode::Not(Box::new(r_tree(rng, depth - 1, utils)))]),
    _ => r_rel(rng, depth - 1, utils),
  }
}

fn r_rel(rng: &mut Rng, depth: usize, utils: &[String]) -> RNode {
  let op = *rng.pick(&["has", "has", "inside", "inside", "follows", "precedes"]);
  let stop = *rng.pick(&["end", "end", "neighbor"]);
  // sibling relations with `stopBy: end` scan all siblings: nesting them inside each other makes
  // matching cubic and worse on large documents, which says nothing about the properties and
  // would only trip the hang watchdog; their operand is therefore an atom
  if matches!(op, "follows" | "precedes") {
    let _ = utils;
    return RNode::Rel(op, stop, Box::new(r_atom(rng, &[])));
  }
  RNode::Rel(op, stop, Box::new(r_tree(rng, depth, utils)))
}

/// A positive top-level matcher plus random refinements.
pub fn gen_random_rule(rng: &mut Rng, lang: &str, n: usize) -> RuleSpec {
  let tag = if lang == "TypeScript" { "ts" } else { "js" };
  // utilities: u0 .. uk, each may reference only earlier ones (acyclic)
  let nutils = rng.range(0, 4);
  let mut names: Vec<String> = vec![];
  let mut utils: Vec<(String, String)> = vec![];
  for i in 0..nutils {
    let name = format!("u{i}");
    let body = match rng.below(3) {
      // a util with its own positive kind and a refinement that may reach other utils
      0 => RNode::All(vec![RNode::Kind(*rng.pick(R_KINDS)), r_rel(rng, 1, &names)]),
      1 => RNode::Any(vec![r_atom(rng, &names), RNode::Kind(*rng.pick(R_KINDS)), r_atom(rng, &names)]),
      _ => RNode::All(vec![RNode::Kind(*rng.pick(R_KINDS)), RNode::Rel("has", "end", Box::new(RNode::Any(vec![r_atom(rng, &names), RNode::Kind(*rng.pick(R_KINDS))])))]),
    };
    utils.push((name.clone(), body.yaml(4)));
    names.push(name);
  }
  let top_pattern = if rng.chance(0.6) { Some(*rng.pick(R_PATTERNS)) } else { None };
  let mut parts: Vec<RNode> = vec![];
  match top_pattern {
    Some(p) => parts.push(RNode::Pattern(p)),
    None => parts.push(RNode::Kind(*rng.pick(&["call_expression", "binary_expression", "expression_statement"]))),
  }
  for _ in 0..rng.range(0, 2) {
    parts.push(match rng.below(3) {
      0 if !names.is_empty() => RNode::Rel(*rng.pick(&["has", "inside"]), "end", Box::new(RNode::Matches(rng.pick(&names).clone()))),
      1 => RNode::Not(Box::new(r_tree(rng, 1, &names))),
      _ => r_rel(rng, 1, &names),
    });
  }
  let rule = RNode::All(parts).yaml(2);
  // constraints / transform / fix only over variables the top pattern certainly binds
  let vars: Vec<&str> = match top_pattern {
    Some("foo($A, $B)") | Some("$A + $B") | Some("$A == $B") => vec!["A", "B"],
    _ => vec![],
  };
  let mut constraints = vec![];
  let mut transform = vec![];
  let mut fix = None;
  if !vars.is_empty() {
    if rng.chance(0.5) {
      for v in &vars {
        if rng.chance(0.6) {
          let c = match rng.below(3) {
            0 => RNode::Kind(*rng.pick(&["number", "identifier", "string"])),
            1 => RNode::Not(Box::new(RNode::Kind("string"))),
            _ => RNode::Any(vec![RNode::Kind("number"), RNode::Kind("identifier"), RNode::Pattern("$X")]),
          };
          constraints.push((v.to_string(), c.yaml(4)));
        }
      }
    }
    if rng.chance(0.5) {
      transform.push(("UP".to_string(), "    convert:\n      source: $A\n      toCase: upperCase\n".to_string()));
      if rng.chance(0.5) {
        transform.push(("PRE".to_string(), "    replace:\n      source: $UP\n      replace: \"^\"\n      by: P_\n".to_string()));
      }
      if rng.chance(0.3) {
        transform.push(("SUB".to_string(), "    substring:\n      source: $B\n      startChar: 0\n      endChar: 3\n".to_string()));
      }
    }
    if rng.chance(0.6) {
      let mut f = String::from("swapped($B, $A");
      for (k, _) in &transform {
        f.push_str(&format!(", ${k}"));
      }
      f.push(')');
      fix = Some(f);
    }
  }
  RuleSpec {
    id: format!("gen-{tag}-{n}"),
    language: lang.to_string(),
    severity: Some(rng.pick(&["hint", "info", "warning", "error"]).to_string()),
    message: Some(if vars.is_empty() { "generated rule".to_string() } else { "generated rule on $A and $B".to_string() }),
    note: None,
    rule,
    utils,
    constraints,
    transform,
    rewriters: vec![],
    fix,
    files: None,
    ignores: None,
    section_order: (0..SECTIONS.len()).collect(),
    valid: vec![],
    invalid: vec![],
    is_util: false,
  }
}

/// Random global utility rules g0..g(n-1) for one language (each may have local utils and may
/// reference earlier globals at any depth), plus rules that consist of `matches: <global>`.
pub fn gen_random_globals(rng: &mut Rng, lang: &str, world_tag: usize) -> (Vec<RuleSpec>, Vec<RuleSpec>) {
  let tag = if lang == "TypeScript" { "ts" } else { "js" };
  let n = rng.range(1, 3);
  let mut names: Vec<String> = vec![];
  let mut globals = vec![];
  for i in 0..n {
    let id = format!("rg{world_tag}-{i}-{tag}");
    // local utils of this global util: may reference earlier globals
    let mut locals: Vec<(String, String)> = vec![];
    let mut local_names: Vec<String> = vec![];
    for j in 0..rng.range(0, 2) {
      let ln = format!("l{j}");
      let mut pool = names.clone();
      pool.extend(local_names.iter().cloned());
      let body = match rng.below(3) {
        0 if !pool.is_empty() => RNode::Matches(rng.pick(&pool).clone()),
        1 => RNode::Any(vec![r_atom(rng, &pool), RNode::Kind(*rng.pick(R_KINDS))]),
        _ => RNode::All(vec![RNode::Kind(*rng.pick(R_KINDS)), r_rel(rng, 1, &pool)]),
      };
      locals.push((ln.clone(), body.yaml(4)));
      local_names.push(ln);
    }
    let mut pool = names.clone();
    pool.extend(local_names.iter().cloned());
    let body = match rng.below(3) {
      0 => RNode::Any(vec![r_atom(rng, &pool), RNode::Kind(*rng.pick(R_KINDS)), r_atom(rng, &pool)]),
      1 if !pool.is_empty() => RNode::Any(vec![RNode::Matches(rng.pick(&pool).clone()), RNode::Kind(*rng.pick(R_KINDS))]),
      _ => RNode::All(vec![RNode::Kind(*rng.pick(R_KINDS)), r_rel(rng, 1, &pool)]),
    };
    globals.push(RuleSpec {
      id: id.clone(),
      language: lang.to_string(),
      severity: None,
      message: None,
      note: None,
      rule: body.yaml(2),
      utils: locals,
      constraints: vec![],
      transform: vec![],
      rewriters: vec![],
      fix: None,
      files: None,
      ignores: None,
      section_order: (0..SECTIONS.len()).collect(),
      valid: vec![],
      invalid: vec![],
      is_util: true,
    });
    names.push(id);
  }
  let mut rules = vec![];
  for (k, g) in names.iter().enumerate() {
    if rng.chance(0.7) {
      rules.push(RuleSpec {
        id: format!("use-{g}"),
        language: lang.to_string(),
        severity: Some(rng.pick(&["hint", "info", "warning"]).to_string()),
        message: Some(format!("matches global util #{k}")),
        note: None,
        rule: format!("  matches: {g}\n"),
        utils: vec![],
        constraints: vec![],
        transform: vec![],
        rewriters: vec![],
        fix: None,
        files: None,
        ignores: None,
        section_order: (0..SECTIONS.len()).collect(),
        valid: vec![],
        invalid: vec![],
        is_util: false,
      });
    }
  }
  (globals, rules)
}
