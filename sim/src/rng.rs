//! One integer decides everything: SplitMix64 root, named independent streams.

pub fn mix64(mut z: u64) -> u64 {
  z = z.wrapping_add(0x9E37_79B9_7F4A_7C15);
  z = (z ^ (z >> 30)).wrapping_mul(0xBF58_476D_1CE4_E5B9);
  z = (z ^ (z >> 27)).wrapping_mul(0x94D0_49BB_1331_11EB);
  z ^ (z >> 31)
}

pub fn fnv1a(bytes: &[u8]) -> u64 {
  let mut h: u64 = 0xcbf2_9ce4_8422_2325;
  for b in bytes {
    h ^= *b as u64;
    h = h.wrapping_mul(0x0000_0100_0000_01B3);
  }
  h
}

/// Seed of run `index` in a batch whose root seed is `root`.
pub fn run_seed(root: u64, index: u64) -> u64 {
  mix64(mix64(root) ^ index.wrapping_mul(0xD6E8_FEB8_6659_FD93))
}

#[derive(Clone, Debug)]
pub struct Rng {
  state: u64,
}

impl Rng {
  pub fn new(seed: u64) -> Self {
    Rng { state: seed }
  }
  /// Independent named stream of a run.
  pub fn stream(run_seed: u64, name: &str) -> Self {
    Rng::new(mix64(run_seed ^ fnv1a(name.as_bytes())))
  }
  pub fn next_u64(&mut self) -> u64 {
    self.state = self.state.wrapping_add(0x9E37_79B9_7F4A_7C15);
    let mut z = self.state;
    z = (z ^ (z >> 30)).wrapping_mul(0xBF58_476D_1CE4_E5B9);
    z = (z ^ (z >> 27)).wrapping_mul(0x94D0_49BB_1331_11EB);
    z ^ (z >> 31)
  }
  /// uniform in 0..n (n > 0)
  pub fn below(&mut self, n: usize) -> usize {
    debug_assert!(n > 0);
    if n <= 1 {
      return 0;
    }
    (self.next_u64() % n as u64) as usize
  }
  /// uniform in lo..=hi
  pub fn range(&mut self, lo: usize, hi: usize) -> usize {
    lo + self.below(hi - lo + 1)
  }
  pub fn chance(&mut self, p: f64) -> bool {
    let v = (self.next_u64() >> 11) as f64 / (1u64 << 53) as f64;
    v < p
  }
  pub fn pick<'a, T>(&mut self, xs: &'a [T]) -> &'a T {
    &xs[self.below(xs.len())]
  }
  pub fn shuffle<T>(&mut self, xs: &mut [T]) {
    for i in (1..xs.len()).rev() {
      let j = self.below(i + 1);
      xs.swap(i, j);
    }
  }
  pub fn fork(&mut self, name: &str) -> Rng {
    let s = self.next_u64();
    Rng::stream(s, name)
  }
}

#[cfg(test)]
mod test {
  use super::*;
  #[test]
  fn streams_independent_and_repeatable() {
    let mut a = Rng::stream(7, "sched");
    let mut b = Rng::stream(7, "sched");
    let mut c = Rng::stream(7, "fault");
    let x: Vec<_> = (0..8).map(|_| a.next_u64()).collect();
    let y: Vec<_> = (0..8).map(|_| b.next_u64()).collect();
    let z: Vec<_> = (0..8).map(|_| c.next_u64()).collect();
    assert_eq!(x, y);
    assert_ne!(x, z);
  }
}
