//! Delta debugging (ddmin) over a sequence; `test` returns true when the failure persists.

pub fn ddmin<T: Clone>(items: &[T], mut test: impl FnMut(&[T]) -> bool) -> Vec<T> {
  let mut cur: Vec<T> = items.to_vec();
  if cur.is_empty() {
    return cur;
  }
  // try the empty sequence first
  if test(&[]) {
    return vec![];
  }
  let mut n = 2usize;
  let mut budget = 400usize;
  while cur.len() >= 2 && budget > 0 {
    let chunk = cur.len().div_ceil(n);
    let mut reduced = false;
    let mut start = 0;
    while start < cur.len() && budget > 0 {
      let end = (start + chunk).min(cur.len());
      let mut cand: Vec<T> = Vec::with_capacity(cur.len() - (end - start));
      cand.extend_from_slice(&cur[..start]);
      cand.extend_from_slice(&cur[end..]);
      budget -= 1;
      if !cand.is_empty() && test(&cand) {
        cur = cand;
        n = n.saturating_sub(1).max(2);
        reduced = true;
        // restart scanning at the same offset
      } else {
        start = end;
      }
    }
    if !reduced {
      if n >= cur.len() {
        break;
      }
      n = (n * 2).min(cur.len());
    }
  }
  // final pass: single removals
  let mut i = 0;
  while i < cur.len() && cur.len() > 1 && budget > 0 {
    let mut cand = cur.clone();
    cand.remove(i);
    budget -= 1;
    if test(&cand) {
      cur = cand;
    } else {
      i += 1;
    }
  }
  cur
}

#[cfg(test)]
mod test {
  use super::*;
  #[test]
  fn finds_pair() {
    let v: Vec<u32> = (0..40).collect();
    let r = ddmin(&v, |s| s.contains(&7) && s.contains(&31));
    assert_eq!(r, vec![7, 31]);
  }
}
