//! C18 — `--update-all` writes exactly the announced edits and nothing else.

use crate::c17::{parse_output, Cmd};
use crate::cli_run;
use crate::cli_world::{self, CliWorld, GenOpts};
use crate::driver::*;
use crate::hashseam;
use crate::rng::{fnv1a, mix64, Rng};
use crate::sched::{Fault, Policy, SchedCfg, SchedResult};
use crate::shrink;
use serde::{Deserialize, Serialize};
use serde_json::{json, Value};
use std::collections::{BTreeMap, BTreeSet};
use std::path::PathBuf;

pub struct C18Sim;

const PLANS_PER_WORLD: usize = 10;
pub const KF_CLOBBER: &str = "multi-document-clobber";

#[derive(Clone, Debug, Serialize, Deserialize)]
pub struct Plan {
  pub seed: u64,
  pub k: usize,
  pub policy: Policy,
  pub faults: Vec<Fault>,
  pub hash_seed: u64,
  pub rounds: usize,
  #[serde(default)]
  pub forced: Option<Vec<u32>>,
  #[serde(default)]
  pub forced_picks: Option<Vec<u32>>,
}

/// args of the command without the output selector (`--json=stream` / `-U`), `-j`, path
#[derive(Clone, Debug, Serialize, Deserialize, PartialEq)]
pub struct UCmd {
  pub base: Vec<String>,
}

fn s(x: &str) -> String {
  x.to_string()
}

#[derive(Clone, Debug, PartialEq, Eq, PartialOrd, Ord)]
pub struct AnnEdit {
  pub start: usize,
  pub end: usize,
  pub replacement: String,
  /// the document (language) of the file that announced it
  pub doc: String,
}

fn root_dir() -> PathBuf {
  cli_run::scratch_root().join("w")
}

fn announce(cmd: &UCmd, hash_seed: u64) -> Result<BTreeMap<String, Vec<AnnEdit>>, String> {
  let mut args = vec![s("sg")];
  args.extend(cmd.base.iter().cloned());
  args.push(s("--json=stream"));
  args.push(s("-j"));
  args.push(s("1"));
  let cfg = SchedCfg { seed: 0, policy: Policy::Canonical, k: 1, forced: None, forced_picks: None, faults: vec![], hash_seed };
  let out = cli_run::run_cli(&root_dir(), &args, hash_seed, Some(cfg));
  if let Some(a) = out.sched.as_ref().and_then(|x| x.abort.clone()) {
    return Err(format!("announcing run aborted: {a}"));
  }
  let c = Cmd { args: vec![], mode: s("stream"), inspect: false, is_scan: cmd.base[0] == "scan" };
  let obs = parse_output(&c, &out)?;
  if let Some(f) = obs.failed {
    return Err(format!("announcing run failed: {f}"));
  }
  let mut m: BTreeMap<String, Vec<AnnEdit>> = BTreeMap::new();
  for r in &obs.records {
    let v: Value = serde_json::from_str(r).map_err(|e| e.to_string())?;
    let (Some(rep), Some(off)) = (v.get("replacement").and_then(|x| x.as_str()), v.get("replacementOffsets")) else {
      continue;
    };
    let file = v["file"].as_str().unwrap_or("").to_string();
    let start = off["start"].as_u64().unwrap_or(0) as usize;
    let end = off["end"].as_u64().unwrap_or(0) as usize;
    m.entry(file).or_default().push(AnnEdit { start, end, replacement: rep.to_string(), doc: v["language"].as_str().unwrap_or("").to_string() });
  }
  for v in m.values_mut() {
    v.sort();
    v.dedup(); // the same edit announced by two identical rules is one edit for the splice
  }
  Ok(m)
}

/// All results of applying `edits` to `old` greedily in start order ("drop any edit that
/// overlaps an earlier accepted one"), for every order of edits that share a start offset.
/// Returns (set of (bytes, accepted count)); None when the tie space is too large.
fn model_results(old: &[u8], edits: &[AnnEdit]) -> Option<BTreeSet<(Vec<u8>, usize)>> {
  let mut groups: Vec<Vec<&AnnEdit>> = vec![];
  let mut sorted: Vec<&AnnEdit> = edits.iter().collect();
  sorted.sort_by_key(|e| e.start);
  for e in sorted {
    match groups.last_mut() {
      Some(g) if g[0].start == e.start => g.push(e),
      _ => groups.push(vec![e]),
    }
  }
  // with the greedy rule only the first edit of a tie group can be accepted unless it is
  // empty-width at `start`; enumerate "which member goes first" (sufficient: after one
  // non-empty edit at offset p is accepted every other edit starting at p overlaps it)
  let mut results: BTreeSet<(Vec<u8>, usize)> = BTreeSet::new();
  let mut combos: usize = 1;
  for g in &groups {
    combos = combos.saturating_mul(g.len());
    if combos > 64 {
      return None;
    }
  }
  let mut idx = vec![0usize; groups.len()];
  loop {
    // build the order: for each group the chosen member first, the others after it
    let mut out: Vec<u8> = Vec::with_capacity(old.len());
    let mut pos = 0usize;
    let mut end = 0usize;
    let mut accepted = 0usize;
    let mut ok = true;
    for (gi, g) in groups.iter().enumerate() {
      let mut order: Vec<&AnnEdit> = vec![g[idx[gi]]];
      for (j, e) in g.iter().enumerate() {
        if j != idx[gi] {
          order.push(e);
        }
      }
      for e in order {
        if e.start < end {
          continue;
        }
        if e.start > old.len() || e.end > old.len() || e.end < e.start {
          ok = false;
          break;
        }
        out.extend_from_slice(&old[pos..e.start]);
        out.extend_from_slice(e.replacement.as_bytes());
        pos = e.end;
        end = e.end;
        accepted += 1;
      }
    }
    if ok {
      out.extend_from_slice(&old[pos.min(old.len())..]);
      results.insert((out, accepted));
    }
    // next combination
    let mut gi = 0;
    loop {
      if gi == groups.len() {
        return Some(results);
      }
      idx[gi] += 1;
      if idx[gi] < groups[gi].len() {
        break;
      }
      idx[gi] = 0;
      gi += 1;
    }
  }
}

#[derive(Debug, Clone, Default)]
pub struct Outcome {
  pub violation: Option<(String, String)>,
  pub known: Vec<String>,
  pub sched: Option<SchedResult>,
  pub edits_applied: usize,
  pub multi_doc_files: usize,
  pub tie_groups: usize,
  pub rounds_done: usize,
  pub files_changed: usize,
}

/// every regular file of the sandbox (sources, rule files, config), relative path -> bytes
fn read_world_tree(_w: &CliWorld) -> BTreeMap<String, Vec<u8>> {
  fn walk(dir: &std::path::Path, root: &std::path::Path, out: &mut BTreeMap<String, Vec<u8>>) {
    let Ok(rd) = std::fs::read_dir(dir) else { return };
    let mut entries: Vec<_> = rd.flatten().collect();
    entries.sort_by_key(|e| e.file_name());
    for e in entries {
      let p = e.path();
      if p.is_dir() {
        walk(&p, root, out);
      } else if p.is_file() {
        let rel = p.strip_prefix(root).unwrap().to_string_lossy().to_string();
        out.insert(rel, std::fs::read(&p).unwrap_or_default());
      }
    }
  }
  let root = root_dir();
  let mut m = BTreeMap::new();
  walk(&root, &root, &mut m);
  m
}

pub fn eval_plan(w: &CliWorld, cmd: &UCmd, plan: &Plan, known: &KnownFindings) -> Result<Outcome, String> {
  let root = root_dir();
  w.materialize(&root);
  let mut oc = Outcome::default();
  for round in 0..plan.rounds.max(1) {
    let before = read_world_tree(w);
    let ann = announce(cmd, plan.hash_seed)?;
    // the -U command
    let mut args = vec![s("sg")];
    args.extend(cmd.base.iter().cloned());
    args.push(s("-U"));
    args.push(s("-j"));
    args.push(plan.k.to_string());
    let faults = if round == 0 { plan.faults.clone() } else { vec![] };
    let cfg = SchedCfg {
      seed: mix64(plan.seed ^ round as u64),
      policy: plan.policy.clone(),
      k: plan.k,
      forced: if round == 0 { plan.forced.clone() } else { None },
      forced_picks: if round == 0 { plan.forced_picks.clone() } else { None },
      faults,
      hash_seed: plan.hash_seed,
    };
    let out = cli_run::run_cli(&root, &args, mix64(plan.hash_seed ^ (round as u64 + 1)), Some(cfg));
    let sr = out.sched.clone().ok_or("no scheduler result")?;
    if round == 0 {
      oc.sched = Some(sr.clone());
    }
    let viol = |c: &str, d: String| Some((c.to_string(), d));
    if let Some(a) = &sr.abort {
      oc.violation = viol(if a.starts_with("DEADLOCK") { "DEADLOCK" } else { "UNBOUNDED" }, a.clone());
      return Ok(oc);
    }
    if let Some(p) = &out.consumer_panic {
      oc.violation = viol("PANIC", format!("the rewriting thread panicked: {p}"));
      return Ok(oc);
    }
    if !sr.panics.is_empty() {
      oc.violation = viol("PANIC", sr.panics.join("; "));
      return Ok(oc);
    }
    let after = read_world_tree(w);
    if std::env::var("AGSIM_DEBUG").is_ok() {
      eprintln!("DEBUG round {round} args={args:?} result={:?}\nstdout={}\nann={ann:?}", out.result, out.stdout_str());
    }
    let write_fault: Option<&Fault> = sr.fired.iter().find(|f| f.kind.starts_with("write"));
    let read_faulted: Vec<&str> = sr.fired.iter().filter(|f| !f.kind.starts_with("write")).map(|f| f.path.as_str()).collect();
    let stdout = out.stdout_str();
    let applied_line: Option<usize> = stdout.lines().find_map(|l| l.rfind("Applied ").and_then(|i| l[i + 8..].strip_suffix(" changes")).and_then(|n| n.trim().parse().ok()));
    if let Some(wf) = write_fault {
      // the command must report the failure; every other file is fully old or fully new
      if out.result.is_ok() {
        oc.violation = viol("WRITE-ERROR-SWALLOWED", format!("writing {} failed ({}), but the command reported success", wf.path, wf.kind));
        return Ok(oc);
      }
    } else if let (Err(e), None) = (&out.result, out.diagnostic_errors()) {
      oc.violation = viol("COMMAND-FAILED", format!("`{}` failed without an injected write fault: {e}", args.join(" ")));
      return Ok(oc);
    }
    let mut expected_n = 0usize;
    let mut n_assertable = true;
    let mut clobbered_files = 0usize;
    for (path, old) in &before {
      let Some(new) = after.get(path) else {
        oc.violation = viol("FILE-DELETED", format!("{path} disappeared during -U"));
        return Ok(oc);
      };
      if Some(path.as_str()) == write_fault.map(|f| f.path.as_str()) {
        n_assertable = false;
        continue; // std::fs::write promises no atomicity and neither does the property
      }
      let mut edits: Vec<AnnEdit> = ann.get(path).cloned().unwrap_or_default();
      // blocks that spell their language differently (<script> / <script lang="jsx">) are documents
      // of their own although the language is one: tell them apart by the opening tag
      if path.ends_with(".html") {
        if let Ok(text) = std::str::from_utf8(old) {
          for e in edits.iter_mut() {
            let upto = &text[..e.start.min(text.len())];
            if let Some(open) = upto.rfind("<script").into_iter().chain(upto.rfind("<style")).max() {
              if let Some(close) = text[open..].find('>') {
                let inside = !text[open..e.start.min(text.len())].contains("</s");
                if open + close < e.start && inside && !e.doc.starts_with("Html") {
                  e.doc = format!("{} {}", e.doc, &text[open..open + close + 1]);
                }
              }
            }
          }
        }
      }
      if read_faulted.contains(&path.as_str()) {
        // skipped file: must be untouched
        if new != old {
          oc.violation = viol("SKIPPED-FILE-MODIFIED", format!("{path} could not be read (injected fault) but its content changed"));
          return Ok(oc);
        }
        continue;
      }
      if edits.is_empty() {
        if new != old {
          oc.violation = viol("UNANNOUNCED-CHANGE", format!("{path} has no announced edit under --json but its bytes changed ({} -> {} bytes)", old.len(), new.len()));
          return Ok(oc);
        }
        continue;
      }
      let docs: BTreeSet<&str> = edits.iter().map(|e| e.doc.as_str()).collect();
      if docs.len() >= 2 {
        oc.multi_doc_files += 1;
      }
      let mut starts: Vec<usize> = edits.iter().map(|e| e.start).collect();
      starts.sort();
      if starts.windows(2).any(|p| p[0] == p[1]) {
        oc.tie_groups += 1;
      }
      let Some(model) = model_results(old, &edits) else {
        n_assertable = false;
        continue;
      };
      if write_fault.is_some() && new == old {
        n_assertable = false;
        continue; // the run stopped before this file: fully old is fine
      }
      if let Some((_, n)) = model.iter().find(|(b, _)| b == new) {
        expected_n += n;
        oc.edits_applied += n;
        if new != old {
          oc.files_changed += 1;
        }
        continue;
      }
      // the run was aborted by a write error on another file: a file whose documents come as
      // separate payloads may have received only the payloads processed before the abort
      if write_fault.is_some() && docs.len() >= 2 {
        let dv: Vec<&str> = docs.iter().copied().collect();
        let mut partial = false;
        for mask in 1u32..(1u32 << dv.len()) - 1 {
          let only: Vec<AnnEdit> = edits.iter().filter(|e| dv.iter().enumerate().any(|(i, d)| mask & (1 << i) != 0 && *d == e.doc)).cloned().collect();
          if let Some(m) = model_results(old, &only) {
            if m.iter().any(|(b, _)| b == new) {
              partial = true;
            }
          }
        }
        if partial {
          n_assertable = false;
          continue;
        }
      }
      // mismatch: is it the listed multi-document finding?
      let mut attributed = false;
      if docs.len() >= 2 {
        for d in &docs {
          let only: Vec<AnnEdit> = edits.iter().filter(|e| e.doc == *d).cloned().collect();
          if let Some(m) = model_results(old, &only) {
            if m.iter().any(|(b, _)| b == new) {
              attributed = true;
            }
          }
        }
      }
      if attributed && known.is_open("C18", KF_CLOBBER).is_some() {
        clobbered_files += 1;
        // the count printed includes the overwritten documents' edits
        if let Some((_, n)) = model.iter().next() {
          expected_n += n;
        }
        let line = format!("{KF_CLOBBER} a file with fixes in several embedded documents keeps only one document's edits after -U");
        if !oc.known.contains(&line) {
          oc.known.push(line);
        }
        continue;
      }
      let class = if attributed { "MULTI-DOCUMENT-CLOBBER" } else { "FILE-CONTENT-MISMATCH" };
      oc.violation = viol(
        class,
        format!(
          "{path}: content after `{}` is none of the {} results of applying the {} announced edits ({} documents: {:?}) to the previous content; got {} bytes{}",
          args.join(" "),
          model.len(),
          edits.len(),
          docs.len(),
          docs,
          new.len(),
          if std::str::from_utf8(new).is_err() { " (not valid UTF-8)" } else { "" }
        ),
      );
      return Ok(oc);
    }
    // after a write error that left the file untouched, an `Applied N` line (if any is
    // printed at all) must still not count edits that are not in the files
    if let (Some(wf), Some(got)) = (write_fault, applied_line) {
      if wf.kind == "write-eio" {
        let mut present = 0usize;
        let mut countable = true;
        for (path, old) in &before {
          let Some(new) = after.get(path) else { continue };
          if new == old {
            continue;
          }
          let edits: Vec<AnnEdit> = ann.get(path).cloned().unwrap_or_default();
          match model_results(old, &edits).and_then(|m| m.into_iter().find(|(b, _)| &b == &new).map(|(_, n)| n)) {
            Some(n) => present += n,
            None => countable = false,
          }
        }
        if countable && got != present {
          oc.violation = viol("APPLIED-COUNT", format!("writing {} failed; `Applied {got} changes` was printed but the files contain {present} of the announced edits", wf.path));
          return Ok(oc);
        }
      }
    }
    if write_fault.is_none() && n_assertable {
      let got = applied_line.unwrap_or(0);
      // a model with ties may accept a different number of edits; accept any modelled count
      if got != expected_n && clobbered_files == 0 {
        // recompute the set of possible totals only when needed (ties are rare)
        let mut possible: BTreeSet<usize> = BTreeSet::new();
        possible.insert(0);
        for (path, old) in &before {
          let edits: Vec<AnnEdit> = ann.get(path).cloned().unwrap_or_default();
          if edits.is_empty() || read_faulted.contains(&path.as_str()) {
            continue;
          }
          let Some(new) = after.get(path) else { continue };
          let ns: BTreeSet<usize> = model_results(old, &edits).unwrap_or_default().into_iter().filter(|(b, _)| b == new).map(|(_, n)| n).collect();
          let mut next = BTreeSet::new();
          for a in &possible {
            for b in &ns {
              next.insert(a + b);
            }
          }
          possible = next;
        }
        if !possible.contains(&got) {
          oc.violation = viol("APPLIED-COUNT", format!("`Applied {got} changes` but the files contain {expected_n} of the announced edits"));
          return Ok(oc);
        }
      } else if got != expected_n && clobbered_files > 0 {
        // attributed to the listed finding above; nothing else to check
      }
    }
    oc.rounds_done = round + 1;
    if write_fault.is_some() || !read_faulted.is_empty() {
      break;
    }
  }
  Ok(oc)
}

pub fn gen_cmd(rng: &mut Rng, w: &CliWorld) -> UCmd {
  let roll = rng.below(100);
  if roll < 50 {
    return UCmd { base: vec![s("scan")] };
  }
  // rule sets that do not include every project rule (no unused-suppression rule then)
  let standalone = w.standalone_rule_files();
  if roll < 62 && !standalone.is_empty() {
    return UCmd { base: vec![s("scan"), s("-r"), rng.pick(&standalone).clone()] };
  }
  if roll < 70 {
    let ids: Vec<String> = w.all_rules().iter().filter(|r| r.severity.as_deref() != Some("off")).map(|r| r.id.clone()).collect();
    if !ids.is_empty() {
      let id = rng.pick(&ids);
      let piece: String = id.chars().take(rng.range(2, 6)).collect();
      return UCmd { base: vec![s("scan"), format!("--filter={piece}")] };
    }
  }
  let langs = w.languages();
  let lang = if langs.is_empty() { s("TypeScript") } else { rng.pick(&langs).clone() };
  let c = crate::corpus::corpus(&lang);
  let (p, f) = *rng.pick(c.rewrites);
  if rng.chance(0.5) {
    UCmd { base: vec![s("run"), s("-p"), s(p), s("-r"), s(f), s("-l"), lang] }
  } else {
    UCmd { base: vec![s("run"), s("-p"), s(p), s("-r"), s(f)] }
  }
}

fn gen_world_and_cmd(seed: u64) -> (CliWorld, UCmd) {
  let mut r = Rng::stream(seed, "world");
  let mut w = cli_world::gen_world(&mut r, &GenOpts { max_files: 8, allow_special: true, with_tests: false, fix_heavy: true, order_sensitive_rules: false, hard_links: false, injections: true, lang_globs: false });
  // embedded documents are the interesting case: make them frequent
  if r.chance(0.5) {
    let n = w.files.len();
    w.files.push(cli_world::SrcFile { path: format!("web/page{n}.html"), text: cli_world::gen_source(&mut r, "Html"), hex: None, kind: s("normal"), link_to: None });
    let have: Vec<String> = w.languages();
    let mut extra = vec![];
    for (l, t) in [("Html", "html-p"), ("JavaScript", "no-console"), ("JavaScript", "eqeqeq"), ("Css", "css-red")] {
      if !have.contains(&l.to_string()) || r.chance(0.3) {
        let spec = crate::rules::instantiate(crate::rules::template(t), l, "-x");
        if !w.all_rules().iter().any(|x| x.id == spec.id) {
          extra.push(spec);
        }
      }
    }
    for (i, e) in extra.into_iter().enumerate() {
      w.rule_dirs[0].files.push(cli_world::RuleFile { name: format!("x{i}.yml"), docs: vec![e] });
    }
  }
  let cmd = gen_cmd(&mut r, &w);
  (w, cmd)
}

fn gen_plan(seed: u64, w: &CliWorld) -> Plan {
  let mut r = Rng::stream(seed, "plan");
  let k = *r.pick(&[1usize, 1, 2, 2, 3, 4, 8, 12]);
  let policy = Policy::draw(&mut r);
  let mut fr = Rng::stream(seed, "fault");
  let mut faults = vec![];
  let normal: Vec<&cli_world::SrcFile> = w.files.iter().filter(|f| f.kind == "normal").collect();
  if !normal.is_empty() && fr.chance(0.3) {
    let f = fr.pick(&normal);
    let kind = *fr.pick(&["write-eio", "write-torn", "write-eio", "eio", "eacces"]);
    faults.push(Fault { kind: kind.to_string(), path: f.path.clone(), content: None });
  }
  Plan { seed, k, policy, faults, hash_seed: r.next_u64(), rounds: r.range(1, 3), forced: None, forced_picks: None }
}

fn eval_fresh(w: &CliWorld, cmd: &UCmd, plan: &Plan, known: &KnownFindings) -> Result<Outcome, String> {
  w.materialize(&root_dir());
  eval_plan(w, cmd, plan, known)
}

fn minimise(w: &CliWorld, cmd: &UCmd, plan: &Plan, class: &str, known: &KnownFindings) -> (CliWorld, Plan) {
  let same = |w: &CliWorld, p: &Plan| matches!(eval_fresh(w, cmd, p, known), Ok(Outcome { violation: Some((c, _)), .. }) if c == class);
  let mut w = w.clone();
  let mut plan = plan.clone();
  for (k, pol) in [(1usize, Policy::Canonical), (plan.k, Policy::Canonical)] {
    let mut p = plan.clone();
    p.k = k;
    p.policy = pol;
    if same(&w, &p) {
      plan = p;
      break;
    }
  }
  if plan.rounds > 1 {
    let mut p = plan.clone();
    p.rounds = 1;
    if same(&w, &p) {
      plan = p;
    }
  }
  if !plan.faults.is_empty() {
    let mut p = plan.clone();
    p.faults.clear();
    if same(&w, &p) {
      plan = p;
    }
  }
  w.files = shrink::ddmin(&w.files, |fs| {
    let mut w2 = w.clone();
    w2.files = fs.to_vec();
    plan.faults.iter().all(|f| fs.iter().any(|x| x.path == f.path)) && same(&w2, &plan)
  });
  for di in 0..w.rule_dirs.len() {
    let fs = shrink::ddmin(&w.rule_dirs[di].files, |fs| {
      let mut w2 = w.clone();
      w2.rule_dirs[di].files = fs.to_vec();
      same(&w2, &plan)
    });
    w.rule_dirs[di].files = fs;
  }
  (w, plan)
}

impl Simulation for C18Sim {
  fn id(&self) -> &'static str {
    "C18"
  }
  fn tier(&self, name: &str) -> TierCfg {
    if name == "thorough" {
      TierCfg { name: "thorough".into(), max_runs: 36_000, secs: 900 }
    } else {
      TierCfg { name: "quick".into(), max_runs: 480, secs: 150 }
    }
  }
  fn run(&self, seed: u64, _tier: &str, known: &KnownFindings) -> RunReport {
    cli_run::quiet_panics();
    hashseam::set_per_thread(true);
    let (w, cmd) = gen_world_and_cmd(seed);
    w.materialize(&root_dir());
    let mut r = RunReport::default();
    let mut ev: Vec<String> = vec![];
    for p in 0..PLANS_PER_WORLD {
      let pseed = mix64(seed ^ (p as u64 + 1).wrapping_mul(0xA24B_AED4_963E_E407));
      let plan = gen_plan(pseed, &w);
      let oc = match eval_plan(&w, &cmd, &plan, known) {
        Ok(o) => o,
        Err(e) => panic!("harness: {e} (cmd {:?})", cmd.base),
      };
      r.evals += 1;
      let sr = oc.sched.clone().unwrap_or_default();
      r.steps += sr.steps;
      r.count(&format!("policy:{}", plan.policy.name()));
      r.count(if plan.faults.is_empty() { "policy:fault-free" } else { "policy:fault-injecting" });
      r.count(&format!("policy:cmd={}", cmd.base[0]));
      for f in &sr.fired {
        r.count(&format!("fault:{}", f.kind));
      }
      r.add("probe:edits_applied_and_verified", oc.edits_applied as u64);
      r.add("probe:files_rewritten_and_verified", oc.files_changed as u64);
      r.add("probe:files_with_edits_in_several_documents", oc.multi_doc_files as u64);
      if w.injections > 0 {
        r.count("probe:runs_in_worlds_with_language_injections_in_sgconfig");
      }
      r.add("probe:files_with_edits_sharing_a_start_offset", oc.tie_groups as u64);
      if oc.rounds_done >= 2 {
        r.count("probe:repeated_invocation_checked");
      }
      if sr.events.iter().any(|e| e.contains(" write ")) && sr.events.iter().rposition(|e| e.contains(" read ")) > sr.events.iter().position(|e| e.contains(" write ")) {
        r.count("probe:file_scanned_while_another_was_being_rewritten");
      }
      for k in &oc.known {
        if !r.known.contains(k) {
          r.known.push(k.clone());
        }
      }
      let h = fnv1a(format!("{:?}|{}|{}", cmd.base, plan.k, sr.events.join("\n")).as_bytes());
      if oc.edits_applied > 0 && (sr.preemptions > 0 || !sr.fired.is_empty()) {
        r.more_hashes.push(h);
      }
      ev.push(format!("plan {p} {h:016x} applied={} known={}", oc.edits_applied, oc.known.len()));
      if p == 0 && (seed & 7) == 0 {
        r.sample = Some(json!({
          "cmd": format!("sg {} -U -j {}", cmd.base.join(" "), plan.k),
          "files": w.files.iter().map(|f| format!("{} ({})", f.path, f.kind)).collect::<Vec<_>>(),
          "rules": w.all_rules().iter().map(|x| x.id.clone()).collect::<Vec<_>>(),
          "plan": {"threads": plan.k, "policy": plan.policy.name(), "rounds": plan.rounds, "faults": plan.faults.iter().map(|f| format!("{} {}", f.kind, f.path)).collect::<Vec<_>>()},
          "edits_applied_and_verified": oc.edits_applied,
          "trace_head": sr.events.iter().take(30).collect::<Vec<_>>(),
        }));
      }
      if let Some((class, detail)) = oc.violation.clone() {
        let mut pinned = plan.clone();
        pinned.forced = Some(sr.choices.clone());
        pinned.forced_picks = Some(sr.picks.clone());
        let (mw, mp) = minimise(&w, &cmd, &pinned, &class, known);
        let fin = eval_fresh(&mw, &cmd, &mp, known);
        let (c2, d2) = match &fin {
          Ok(Outcome { violation: Some((c, d)), .. }) => (c.clone(), d.clone()),
          _ => (class, detail),
        };
        r.violation = Some((c2, d2, json!({"world": mw, "cmd": cmd, "plan": mp, "original": {"files": w.files.len(), "rules": w.all_rules().len(), "threads": plan.k}})));
        break;
      }
    }
    r.event_hash = fnv1a(ev.join("\n").as_bytes());
    r
  }
  fn replay(&self, doc: &Value, known: &KnownFindings) -> ReplayOutcome {
    cli_run::quiet_panics();
    hashseam::set_per_thread(true);
    let bad = |m: String| ReplayOutcome { reproduced: false, class: "".into(), detail: m, event_hash: 0 };
    let w: CliWorld = match serde_json::from_value(doc["world"].clone()) {
      Ok(x) => x,
      Err(e) => return bad(format!("cannot read world: {e}")),
    };
    let cmd: UCmd = match serde_json::from_value(doc["cmd"].clone()) {
      Ok(x) => x,
      Err(e) => return bad(format!("cannot read cmd: {e}")),
    };
    let plan: Plan = match serde_json::from_value(doc["plan"].clone()) {
      Ok(x) => x,
      Err(e) => return bad(format!("cannot read plan: {e}")),
    };
    match eval_fresh(&w, &cmd, &plan, known) {
      Ok(Outcome { violation: Some((c, d)), .. }) => ReplayOutcome { reproduced: true, class: c, detail: d, event_hash: 0 },
      Ok(o) => ReplayOutcome { reproduced: false, class: "".into(), detail: format!("every file matches the model (known findings met: {:?})", o.known), event_hash: 0 },
      Err(e) => bad(format!("harness error during replay: {e}")),
    }
  }
  fn warm_up(&self) {
    crate::selftest::warm_up();
  }
  fn describe(&self) -> Describe {
    Describe {
      rule: "a case = (fix-heavy generated project incl. randomly generated rules, 0-9 source files incl. BOM/CRLF/no-trailing-newline/multi-byte, suppression comments naming real rule ids, half of the worlds with an HTML file carrying <script>/<style> documents; command scan -U or run -p P -r R [-l L] -U; plan = thread count x scheduling policy x seeded schedule x hash seed x optional write/read fault x 1-3 repeated invocations). Per round: the same command with --json=stream announces edits (replacementOffsets, replacement, document language); reference model = previous bytes of every file of the sandbox with the announced edits applied greedily in start order, all tie orders enumerated; checked: every file's bytes are a model result, files without announced edits are byte-identical, `Applied N changes` equals the edits present (also after a write error that left the file untouched), after a write fault the command fails and every other file is old, new, or (multi-document files) has the payloads processed so far. non-trivial = at least one edit applied and verified in a run with >=1 pre-emption or fired fault; distinct = (command, threads, scheduler event trace) not seen before".into(),
      assumptions: vec![
        "edits announced twice (identical range and replacement, e.g. by two identical rules) count as one edit for the splice".into(),
        "the file hit by an injected write fault is not asserted (std::fs::write is not atomic and the property does not promise atomicity)".into(),
      ],
      real: vec!["ast_grep::main_with_args with -U: InteractivePrinter::rewrite_action, process_diffs_interactive, apply_rewrite, CombinedScan diffs, std::fs::write on a tmpfs sandbox".into()],
      stub: vec!["ignore's thread pool (as in C17)".into(), "write errors (EIO before any byte; ENOSPC after truncation) through a guarded hook".into()],
      time_unit: "n/a; steps = scheduler decisions".into(),
    }
  }
}
