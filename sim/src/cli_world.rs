//! CLI worlds: a generated project (sgconfig.yml, rule pack, utility rules, rule tests) and
//! a source tree, fully materialised (serialisable for replay files).

use crate::corpus::{self, CORPORA};
use crate::rng::Rng;
use crate::rules::{self, RuleSpec, SECTIONS, TEMPLATES};
use serde::{Deserialize, Serialize};
use std::path::Path;

#[derive(Clone, Debug, Serialize, Deserialize, PartialEq)]
pub struct SrcFile {
  pub path: String,
  /// text content; for `kind == "raw"` the bytes are in `hex`
  pub text: String,
  #[serde(default)]
  pub hex: Option<String>,
  /// normal | empty | non_utf8 | oversize | oversize_mb | big_short | big_short_mb | binary | symlink
  /// (symlink: a symbolic link to `link_to`; not followed by the walker, so not an eligible file)
  pub kind: String,
  /// this path is a hard link to that other file of the world (same inode, same content)
  #[serde(default)]
  pub link_to: Option<String>,
}

impl SrcFile {
  pub fn bytes(&self) -> Vec<u8> {
    match (&self.hex, self.kind.as_str()) {
      (Some(h), _) => (0..h.len() / 2).map(|i| u8::from_str_radix(&h[2 * i..2 * i + 2], 16).unwrap()).collect(),
      (None, "big_short") => {
        // more than 3_000_000 bytes but only a few lines: NOT too large by ast-grep's rule
        let mut v = Vec::with_capacity(3_100_000);
        v.extend_from_slice(b"console.log(1);\nfoo(1, 2);\n/* ");
        v.resize(3_000_200, b'x');
        v.extend_from_slice(b" */\nlet a = 1 == 2;\n");
        v
      }
      (None, "big_short_mb") => {
        // the same with multi-byte characters around offset 3_000_000; `text` holds the ASCII padding
        let pad: usize = self.text.parse().unwrap_or(0);
        let mut v = Vec::with_capacity(3_100_000);
        v.extend_from_slice(b"console.log(1);\nfoo(1, 2);\n/* ");
        v.extend(std::iter::repeat(b'x').take(pad));
        while v.len() < 3_000_200 {
          v.extend_from_slice("\u{20ac}".as_bytes());
        }
        v.extend_from_slice(b" */\nlet a = 1 == 2;\n");
        v
      }
      (None, "oversize_mb") => {
        let pad: usize = self.text.parse().unwrap_or(0);
        let mut v = Vec::with_capacity(3_300_000);
        v.extend_from_slice(b"//");
        v.extend(std::iter::repeat(b'x').take(pad));
        v.push(b'\n');
        while v.len() <= 3_100_000 {
          v.extend_from_slice("//\u{e9}\u{20ac}\n".as_bytes());
        }
        v
      }
      (None, "oversize") => {
        // > 3_000_000 bytes and > 200_000 lines
        let mut v = Vec::with_capacity(3_300_000);
        while v.len() <= 3_100_000 {
          v.extend_from_slice(b"let a = 1;\n");
        }
        v
      }
      _ => self.text.as_bytes().to_vec(),
    }
  }
}

#[derive(Clone, Debug, Serialize, Deserialize, PartialEq)]
pub struct RuleFile {
  pub name: String,
  pub docs: Vec<RuleSpec>,
}

#[derive(Clone, Debug, Serialize, Deserialize, PartialEq)]
pub struct RuleDir {
  pub name: String,
  pub files: Vec<RuleFile>,
}

#[derive(Clone, Debug, Serialize, Deserialize, PartialEq)]
pub struct CliWorld {
  pub files: Vec<SrcFile>,
  pub rule_dirs: Vec<RuleDir>,
  pub util_dirs: Vec<RuleDir>,
  /// write rule tests (`rule-tests/<id>-test.yml`) and a testConfigs entry
  pub with_tests: bool,
  /// content of a `.ignore` file at the root, if any
  pub ignore_file: Option<String>,
  /// `languageInjections` of sgconfig.yml: 0 none, 1 css inside styled.x`...` of js/ts files,
  /// 2 also html inside html`...`
  #[serde(default)]
  pub injections: u8,
  /// further files that are not sources (nested `.ignore` files), path and content
  #[serde(default)]
  pub aux_files: Vec<(String, String)>,
  /// `languageGlobs` of sgconfig.yml (language, globs). Some(empty) still writes the key: ast-grep
  /// registers the table only when the key is present, and launches simulated in one process must
  /// not inherit the table of an earlier project.
  #[serde(default)]
  pub lang_globs: Option<Vec<(String, Vec<String>)>>,
}

impl CliWorld {
  /// rule files that can be given to `scan -r FILE` (no global utility needed, one language)
  pub fn standalone_rule_files(&self) -> Vec<String> {
    let globals: Vec<String> = self.util_dirs.iter().flat_map(|d| d.files.iter().flat_map(|f| f.docs.iter().map(|r| r.id.clone()))).collect();
    let needs_global = |r: &RuleSpec| {
      let mut text = r.rule.clone();
      for (_, u) in &r.utils {
        text.push_str(u);
      }
      globals.iter().any(|g| text.contains(&format!("matches: {g}\n")))
    };
    let mut out = vec![];
    for d in &self.rule_dirs {
      for f in &d.files {
        if !f.docs.is_empty() && f.docs.iter().all(|r| !needs_global(r) && r.severity.as_deref() != Some("off")) {
          out.push(format!("{}/{}", d.name, f.name));
        }
      }
    }
    out
  }
  pub fn all_rules(&self) -> Vec<&RuleSpec> {
    self.rule_dirs.iter().flat_map(|d| d.files.iter().flat_map(|f| f.docs.iter())).collect()
  }
  pub fn languages(&self) -> Vec<String> {
    let mut v: Vec<String> = self.all_rules().iter().map(|r| r.language.clone()).collect();
    v.sort();
    v.dedup();
    v
  }

  pub fn sgconfig(&self) -> String {
    let mut o = String::from("ruleDirs:\n");
    for d in &self.rule_dirs {
      o.push_str(&format!("- {}\n", d.name));
    }
    if !self.util_dirs.is_empty() {
      o.push_str("utilDirs:\n");
      for d in &self.util_dirs {
        o.push_str(&format!("- {}\n", d.name));
      }
    }
    if self.with_tests {
      o.push_str("testConfigs:\n- testDir: rule-tests\n");
    }
    if let Some(g) = &self.lang_globs {
      if g.is_empty() {
        o.push_str("languageGlobs: {}\n");
      } else {
        o.push_str("languageGlobs:\n");
        for (lang, globs) in g {
          o.push_str(&format!("  {lang}: [{}]\n", globs.iter().map(|x| format!("'{x}'")).collect::<Vec<_>>().join(", ")));
        }
      }
    }
    if self.injections > 0 {
      o.push_str("languageInjections:\n");
      for host in ["js", "ts"] {
        o.push_str(&format!("- hostLanguage: {host}\n  rule:\n    pattern: styled.$TAG`$CONTENT`\n  injected: css\n"));
        if self.injections > 1 {
          o.push_str(&format!("- hostLanguage: {host}\n  rule:\n    pattern: html`$CONTENT`\n  injected: html\n"));
        }
      }
    }
    o
  }

  /// Write the world into `root` (which is emptied first).
  pub fn materialize(&self, root: &Path) {
    crate::cli_run::reset_dir(root);
    let w = |rel: &str, bytes: &[u8]| {
      let p = root.join(rel);
      if let Some(parent) = p.parent() {
        std::fs::create_dir_all(parent).expect("mkdir");
      }
      std::fs::write(&p, bytes).unwrap_or_else(|e| panic!("write {}: {e}", p.display()));
    };
    w("sgconfig.yml", self.sgconfig().as_bytes());
    self.write_rules(root, false);
    if self.with_tests {
      self.write_tests(root, false);
    }
    if let Some(ig) = &self.ignore_file {
      w(".ignore", ig.as_bytes());
    }
    for (p, text) in &self.aux_files {
      w(p, text.as_bytes());
    }
    self.write_sources(root);
  }

  /// Rule and utility files. `earlier`: an earlier revision of the project in which every
  /// string fix reads differently (so that snapshots taken then are outdated later).
  pub fn write_rules(&self, root: &Path, earlier: bool) {
    for d in self.rule_dirs.iter().chain(self.util_dirs.iter()) {
      std::fs::create_dir_all(root.join(&d.name)).expect("mkdir");
      for f in &d.files {
        let text = f
          .docs
          .iter()
          .map(|r| {
            let mut r2 = r.clone();
            if earlier {
              if let Some(fx) = &r2.fix {
                if !fx.starts_with('\n') {
                  r2.fix = Some(format!("{fx}/*earlier*/"));
                }
              }
            }
            r2.to_yaml()
          })
          .collect::<Vec<_>>()
          .join("---\n");
        std::fs::write(root.join(format!("{}/{}", d.name, f.name)), text).expect("write rule file");
      }
    }
  }

  /// Rule tests; `partial`: rules with several invalid cases get only the first one (an
  /// earlier state of the test files, so that a later `test -U` is an incremental update).
  pub fn write_tests(&self, root: &Path, partial: bool) {
    std::fs::create_dir_all(root.join("rule-tests")).expect("mkdir");
    for r in self.all_rules() {
      if r.severity.as_deref() == Some("off") {
        continue;
      }
      let mut r2 = (*r).clone();
      if partial && r2.invalid.len() >= 2 {
        r2.invalid.truncate(1);
      }
      std::fs::write(root.join(format!("rule-tests/{}-test.yml", r.id)), r2.test_yaml()).expect("write test");
    }
  }

  pub fn write_sources(&self, root: &Path) {
    for f in &self.files {
      let p = root.join(&f.path);
      if let Some(parent) = p.parent() {
        std::fs::create_dir_all(parent).expect("mkdir");
      }
      // a previous fault may have replaced the file by a directory
      if p.is_dir() {
        let _ = std::fs::remove_dir_all(&p);
      }
      if f.link_to.is_some() {
        continue; // created below, once its target exists
      }
      // break a link left over from an earlier materialisation before writing
      let _ = std::fs::remove_file(&p);
      std::fs::write(&p, f.bytes()).unwrap_or_else(|e| panic!("write {}: {e}", p.display()));
    }
    for f in &self.files {
      if let Some(t) = &f.link_to {
        let p = root.join(&f.path);
        if p.is_dir() {
          let _ = std::fs::remove_dir_all(&p);
        }
        let _ = std::fs::remove_file(&p);
        if f.kind == "symlink" {
          std::os::unix::fs::symlink(root.join(t), &p).unwrap_or_else(|e| panic!("symlink {}: {e}", p.display()));
          continue;
        }
        if std::fs::hard_link(root.join(t), &p).is_err() {
          std::fs::write(&p, f.bytes()).unwrap_or_else(|e| panic!("write {}: {e}", p.display()));
        }
      }
    }
  }
}

const DIRS: &[&str] = &["", "src/", "src/deep/", "lib/", "web/", "vendor/", "pkg/a/b/", "gen code/", "géné/", "src/gen code/", ".cache/", "src/.hidden/"];

fn lang_of_ext(ext: &str) -> &'static str {
  CORPORA.iter().find(|c| c.ext == ext).map(|c| c.lang).unwrap_or("")
}

pub struct GenOpts {
  pub max_files: usize,
  pub allow_special: bool,
  pub with_tests: bool,
  /// only rules with fixes / prefer fixes (C18)
  pub fix_heavy: bool,
  /// include the templates whose semantics depend on evaluation order of hash maps
  pub order_sensitive_rules: bool,
  /// some files are hard links to other files of the tree
  pub hard_links: bool,
  /// some projects declare `languageInjections` (css / html inside js and ts template strings)
  pub injections: bool,
  /// every project writes `languageGlobs` (mostly empty); some map `*.view.ts` files to JavaScript
  pub lang_globs: bool,
}

/// Languages used by CLI worlds (those that have rule templates).
pub const RULE_LANGS: &[&str] = &["TypeScript", "JavaScript", "Python", "Rust", "Go", "Css", "Html"];

pub fn gen_source(rng: &mut Rng, lang: &str) -> String {
  let c = corpus::corpus(lang);
  if lang == "Html" {
    // make sure embedded documents are frequent
    let n = rng.range(2, 7);
    let mut s = String::new();
    for _ in 0..n {
      s.push_str(*rng.pick(c.snippets));
      s.push('\n');
    }
    if rng.chance(0.7) {
      s.push_str("<script>\nconsole.log(1);\nvar a = 1 == 2;\nfoo(1, 2);\n</script>\n");
    }
    if rng.chance(0.6) {
      s.push_str("<style>\na { color: red; }\n</style>\n");
    }
    // the same embedded language spelled a second way: its blocks form a document of their own
    if rng.chance(0.3) {
      let spelled = *rng.pick(&["javascript", "jsx", "js"]);
      s.push_str(&format!("<script lang=\"{spelled}\">\nconsole.log(2);\nbar(foo(3, 4), 1 == 2);\n</script>\n"));
    }
    return s;
  }
  let n = rng.range(1, 10);
  let crlf = rng.chance(0.08);
  let mut s = corpus::make_doc(rng, c, n, crlf);
  if lang == "Go" {
    s = format!("package main\n\n{s}");
  }
  if matches!(lang, "TypeScript" | "JavaScript") {
    // rare textual shapes: a very long line, a byte-order mark, no trailing newline
    if rng.chance(0.04) {
      let mut long = String::from("const big = [");
      for i in 0..rng.range(150, 600) {
        long.push_str(&format!("{},", i % 10));
      }
      long.push_str("0];\nconsole.log(big);\n");
      s.push_str(&long);
    }
    if rng.chance(0.05) {
      s = format!("\u{feff}{s}");
    }
    if rng.chance(0.1) {
      while s.ends_with('\n') || s.ends_with('\r') {
        s.pop();
      }
    }
  }
  s
}

pub fn gen_world(rng: &mut Rng, o: &GenOpts) -> CliWorld {
  // ---- rules
  let nlang = rng.range(1, 3);
  let mut langs: Vec<&str> = vec![];
  // TypeScript/JavaScript carry most templates: favour them
  for _ in 0..nlang {
    let l = if rng.chance(0.55) { *rng.pick(&["TypeScript", "JavaScript"]) } else { *rng.pick(RULE_LANGS) };
    if !langs.contains(&l) {
      langs.push(l);
    }
  }
  if langs.contains(&"Html") && rng.chance(0.8) {
    // embedded languages only show up when their rules are present
    for l in ["JavaScript", "Css"] {
      if !langs.contains(&l) {
        langs.push(l);
      }
    }
  }
  // template strings of js/ts files as embedded css / html documents
  let mut injections = 0u8;
  if o.injections && (langs.contains(&"TypeScript") || langs.contains(&"JavaScript")) && rng.chance(0.3) {
    injections = if rng.chance(0.5) { 1 } else { 2 };
    if !langs.contains(&"Css") {
      langs.push("Css");
    }
    if injections == 2 && !langs.contains(&"Html") {
      langs.push("Html");
    }
  }
  let mut specs: Vec<RuleSpec> = vec![];
  let mut utils: Vec<RuleSpec> = vec![];
  let mut path_scoped: Vec<&str> = vec![];
  for l in &langs {
    let mut cands: Vec<&rules::Template> = TEMPLATES
      .iter()
      .filter(|t| t.langs.contains(l) && !t.is_util)
      .filter(|t| o.order_sensitive_rules || t.name != "shared-constraint")
      .filter(|t| !o.fix_heavy || !t.fix.is_empty() || t.name == "no-debugger" || rng_free_keep(t.name))
      .collect();
    // now and then a language whose every rule is limited to some paths (files:/ignores:): the
    // walker must still visit that language's files
    if rng.chance(0.06) {
      let scoped: Vec<&rules::Template> = cands.iter().copied().filter(|t| !t.files.is_empty() || !t.ignores.is_empty()).collect();
      if !scoped.is_empty() {
        cands = scoped;
        path_scoped.push(*l);
      }
    }
    rng.shuffle(&mut cands);
    let take = rng.range(1, cands.len().min(9));
    for t in cands.into_iter().take(take) {
      // now and then two instances of one template (two rules fixing the same node)
      let copies = if rng.chance(if o.fix_heavy { 0.25 } else { 0.12 }) { 2 } else { 1 };
      for c in 0..copies {
        let suffix = if c == 0 { String::new() } else { format!("-{c}") };
        specs.push(rules::instantiate(t, l, &suffix));
      }
      for u in t.needs_utils {
        let spec = rules::instantiate(rules::template(u), l, "");
        if !utils.iter().any(|x| x.id == spec.id) {
          utils.push(spec);
        }
      }
    }
  }
  // rule ids of a pack: `pack.<id>`, all agreeing up to their last dot (test and snapshot files
  // are named after the id)
  if o.with_tests && rng.chance(0.12) {
    for sp in specs.iter_mut() {
      sp.id = format!("pack.{}", sp.id);
    }
  }
  // randomly generated rule trees with inter-dependent local utilities
  let mut gen_n = 0;
  for l in &langs {
    if matches!(*l, "TypeScript" | "JavaScript") && !path_scoped.contains(l) && rng.chance(0.6) {
      for _ in 0..rng.range(1, 3) {
        specs.push(rules::gen_random_rule(rng, l, gen_n));
        gen_n += 1;
      }
    }
  }
  // randomly generated global utilities (with local utils of their own) and rules using them
  for (li, l) in langs.iter().enumerate() {
    if matches!(*l, "TypeScript" | "JavaScript") && !path_scoped.contains(l) && rng.chance(0.4) {
      let (gs, rs) = rules::gen_random_globals(rng, l, li);
      for g in gs {
        if !utils.iter().any(|x| x.id == g.id) {
          utils.push(g);
        }
      }
      specs.extend(rs);
    }
  }
  // distribute over rule dirs / files
  let ndirs = rng.range(1, 3);
  let mut rule_dirs: Vec<RuleDir> = (0..ndirs).map(|i| RuleDir { name: format!("rules{i}"), files: vec![] }).collect();
  let mut fileno = 0;
  let mut i = 0;
  while i < specs.len() {
    let per = if rng.chance(0.25) { rng.range(2, 3) } else { 1 };
    let docs: Vec<RuleSpec> = specs[i..(i + per).min(specs.len())].to_vec();
    i += per;
    let d = rng.below(ndirs);
    rule_dirs[d].files.push(RuleFile { name: format!("r{fileno:02}.yml"), docs });
    fileno += 1;
  }
  let mut util_dirs = vec![];
  if !utils.is_empty() {
    let mut d = RuleDir { name: "utils".into(), files: vec![] };
    for (n, u) in utils.into_iter().enumerate() {
      d.files.push(RuleFile { name: format!("u{n:02}.yml"), docs: vec![u] });
    }
    util_dirs.push(d);
  }
  // ---- sources
  let nfiles = rng.range(0, o.max_files);
  let mut files: Vec<SrcFile> = vec![];
  for n in 0..nfiles {
    // mostly languages that have rules, sometimes others (must be ignored gracefully)
    let lang = if rng.chance(0.85) { *rng.pick(&langs) } else { *rng.pick(&["Ruby", "Java", "C", "Python", "TypeScript"]) };
    let ext = corpus::corpus(lang).ext;
    let dir = rng.pick(DIRS);
    let path = format!("{dir}f{n}.{ext}");
    let special = o.allow_special && rng.chance(0.12);
    let f = if special {
      match rng.below(8) {
        0 | 1 | 2 => SrcFile { path, text: String::new(), hex: None, kind: "empty".into(), link_to: None },
        3 => SrcFile { path, text: String::new(), hex: Some("6c657420fffe203d20313b0a".into()), kind: "non_utf8".into(), link_to: None },
        // valid lines with findings first, the invalid bytes on the last line
        4 => SrcFile { path, text: String::new(), hex: Some(format!("{}6c657420fffe203d20313b0a", "console.log(1);\nfoo(1, 2);\n".bytes().map(|b| format!("{b:02x}")).collect::<String>())), kind: "non_utf8".into(), link_to: None },
        5 => SrcFile { path, text: "let a = \u{0}1;\nconsole.log(a);\n".into(), hex: None, kind: "binary".into(), link_to: None },
        6 => {
          if rng.chance(0.5) {
            SrcFile { path, text: rng.below(3).to_string(), hex: None, kind: "big_short_mb".into(), link_to: None }
          } else {
            SrcFile { path, text: String::new(), hex: None, kind: "big_short".into(), link_to: None }
          }
        }
        _ => {
          if rng.chance(0.5) {
            SrcFile { path, text: rng.below(6).to_string(), hex: None, kind: "oversize_mb".into(), link_to: None }
          } else {
            SrcFile { path, text: String::new(), hex: None, kind: "oversize".into(), link_to: None }
          }
        }
      }
    } else {
      SrcFile { path, text: gen_source(rng, lang), hex: None, kind: "normal".into(), link_to: None }
    };
    files.push(f);
  }
  if injections > 0 {
    for f in files.iter_mut() {
      if f.kind != "normal" || !(f.path.ends_with(".ts") || f.path.ends_with(".js")) || !rng.chance(0.7) {
        continue;
      }
      if !f.text.is_empty() && !f.text.ends_with('\n') {
        continue; // keep the files without final newline as they are
      }
      let eol = if f.text.contains("\r\n") { "\r\n" } else { "\n" };
      for _ in 0..rng.range(1, 3) {
        let snip = *rng.pick(&[
          "const Button = styled.button`\n  color: red;\n  margin: 0 !important;\n`;",
          "const Box = styled.div`\n  a { color: red; }\n  .box { color: red; margin: 0; }\n`;",
          "const tpl = html`<p>text</p><img src=\"a.png\">`;",
          "const Title = styled.h1`color: red;`;",
        ]);
        f.text.push_str(&snip.replace('\n', eol));
        f.text.push_str(eol);
      }
    }
  }
  // suppression comments that name a rule get the id of a rule that exists in this project
  // (so that "used" and "unused" suppressions of specific rules both occur)
  for f in files.iter_mut() {
    if f.kind != "normal" || !f.text.contains("ast-grep-ignore: no-console") {
      continue;
    }
    let ext = f.path.rsplit('.').next().unwrap_or("").to_string();
    let lang = CORPORA.iter().find(|c| c.ext == ext).map(|c| c.lang).unwrap_or("");
    let ids: Vec<String> = rule_dirs
      .iter()
      .flat_map(|d| d.files.iter().flat_map(|x| x.docs.iter()))
      .filter(|r| r.language == lang && (r.rule.contains("console.log") || rng.chance(0.1)))
      .map(|r| r.id.clone())
      .collect();
    if !ids.is_empty() && rng.chance(0.8) {
      let id = rng.pick(&ids).clone();
      f.text = f.text.replace("ast-grep-ignore: no-console", &format!("ast-grep-ignore: {id}"));
    }
  }
  if rng.chance(0.1) {
    files.push(SrcFile { path: "notes.txt".into(), text: "console.log(1)\n".into(), hex: None, kind: "normal".into(), link_to: None });
  }
  // a second path for an existing file (hard link): a distinct eligible file of the tree
  if o.hard_links && rng.chance(0.12) {
    let normal: Vec<SrcFile> = files.iter().filter(|f| f.kind == "normal").cloned().collect();
    if !normal.is_empty() {
      let t = rng.pick(&normal);
      let ext = t.path.rsplit('.').next().unwrap_or("ts").to_string();
      let dir = rng.pick(DIRS);
      let path = format!("{dir}link{}.{ext}", files.len());
      if !dir.starts_with('.') && !dir.contains("/.") {
        files.push(SrcFile { path, text: t.text.clone(), hex: None, kind: "normal".into(), link_to: Some(t.path.clone()) });
      }
    }
  }
  // a symbolic link to a file of the tree under a name the language filter accepts
  if o.hard_links && rng.chance(0.1) {
    let normal: Vec<SrcFile> = files.iter().filter(|f| f.kind == "normal" && f.link_to.is_none()).cloned().collect();
    if !normal.is_empty() {
      let t = rng.pick(&normal);
      let ext = t.path.rsplit('.').next().unwrap_or("ts").to_string();
      let dir = rng.pick(DIRS);
      if !dir.starts_with('.') && !dir.contains("/.") {
        files.push(SrcFile { path: format!("{dir}sym{}.{ext}", files.len()), text: t.text.clone(), hex: None, kind: "symlink".into(), link_to: Some(t.path.clone()) });
      }
    }
  }
  let mut ignore_file = if rng.chance(0.15) { Some("vendor/\n".to_string()) } else { None };
  let mut aux_files = vec![];
  if o.hard_links && rng.chance(0.12) {
    // a line the glob compiler rejects: reported, and the rest of the file still applies
    if let (Some(ig), true) = (ignore_file.as_mut(), rng.chance(0.5)) {
      *ig = format!("{{foo\n{ig}");
    } else {
      let dir = *rng.pick(&["src/", "lib/", "web/", "pkg/a/", "src/deep/"]);
      aux_files.push((format!("{dir}.ignore"), "{foo\n".to_string()));
    }
  }
  let mut lang_globs = None;
  if o.lang_globs {
    let mut g = vec![];
    if langs.contains(&"TypeScript") && langs.contains(&"JavaScript") && rng.chance(0.5) {
      // some TypeScript-named files are to be read as JavaScript
      let mut any = false;
      for f in files.iter_mut() {
        if f.kind == "normal" && f.link_to.is_none() && f.path.ends_with(".ts") && rng.chance(0.5) {
          f.path = format!("{}.view.ts", f.path.trim_end_matches(".ts"));
          any = true;
        }
      }
      if any {
        g.push(("js".to_string(), vec!["*.view.ts".to_string()]));
      }
    }
    lang_globs = Some(g);
  }
  let _ = lang_of_ext;
  CliWorld { files, rule_dirs, util_dirs, with_tests: o.with_tests, ignore_file, injections, aux_files, lang_globs }
}

fn rng_free_keep(name: &str) -> bool {
  // in fix-heavy worlds keep a few fix-less rules so that payloads without diffs also occur
  matches!(name, "no-eval" | "foo-same-args" | "css-important")
}

/// Reorder everything whose order must not matter (C13): rule dirs, file names (readdir and
/// sort order), documents inside a file, sections of a rule, keys of utils / constraints /
/// transform, the rewriters list, util files.
pub fn permute(w: &CliWorld, rng: &mut Rng) -> CliWorld {
  let mut w = w.clone();
  let perm_spec = |r: &mut RuleSpec, rng: &mut Rng| {
    rng.shuffle(&mut r.utils);
    rng.shuffle(&mut r.constraints);
    rng.shuffle(&mut r.transform);
    rng.shuffle(&mut r.rewriters);
    let mut order: Vec<usize> = (0..SECTIONS.len()).collect();
    rng.shuffle(&mut order);
    r.section_order = order;
  };
  for dirs in [&mut w.rule_dirs, &mut w.util_dirs] {
    rng.shuffle(dirs);
    // regroup files over directories and rename them (names decide sort order where sorted)
    let mut all: Vec<RuleFile> = dirs.iter_mut().flat_map(|d| d.files.drain(..)).collect();
    rng.shuffle(&mut all);
    let nd = dirs.len();
    let mut names: Vec<String> = (0..all.len()).map(|i| format!("p{i:02}.yml")).collect();
    rng.shuffle(&mut names);
    for (i, mut f) in all.into_iter().enumerate() {
      f.name = names[i].clone();
      rng.shuffle(&mut f.docs);
      for r in f.docs.iter_mut() {
        perm_spec(r, rng);
      }
      dirs[rng.below(nd)].files.push(f);
    }
  }
  w
}
